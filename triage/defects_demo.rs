use tls_parser::*;
use tls_parser::nom::error::ErrorKind;
fn show<T: std::fmt::Debug>(name: &str, ok: bool, v: T) { println!("{} {}: {:?}", if ok {"OK  "} else {"FAIL"}, name, v); }
fn main() {
    // 1. debug_assert in defragmenter
    let r = std::panic::catch_unwind(|| {
        let mut p = TlsRecordsParser::default();
        let hdr = TlsRecordHeader { record_type: TlsRecordType::Handshake, version: TlsVersion::Tls12, len: 0 };
        let r1 = p.parse_record(TlsRawRecord { hdr, data: &[] });
        let s1 = format!("{:?}", r1); let s1 = format!("{} in_progress={}", s1, p.defrag_in_progress());
        let hdr2 = TlsRecordHeader { record_type: TlsRecordType::Handshake, version: TlsVersion::Tls12, len: 4 };
        let r2 = p.parse_record(TlsRawRecord { hdr: hdr2, data: &[0,0,0,0] });
        format!("{} ; then {:?}", s1, r2)
    });
    show("1 defrag empty first fragment then record (no panic expected)", r.is_ok(), &r);
    // 2. heartbeat Incomplete on complete record
    let rec = [0x18u8, 3, 3, 0, 3, 1, 0xff, 0xff];
    let r = parse_tls_plaintext(&rec);
    show("2 complete heartbeat record never Incomplete", !matches!(r, Err(nom::Err::Incomplete(_))), &r);
    // 3. application data
    let rec = [0x17u8, 3, 3, 0, 3, 1, 2, 3];
    let r = parse_tls_plaintext(&rec);
    show("3 application data record parses to one blob", r.is_ok(), &r);
    let rec = [0x17u8, 3, 3, 0, 0];
    let r = parse_tls_plaintext(&rec);
    show("3b empty application data record parses", r.is_ok(), &r);
    // 4. tag parsers
    let r = parse_tls_extension_ec_point_formats(&[0, 0x0b, 0, 2, 1, 0]);
    show("4a ec_point_formats accepts type 11", r.is_ok(), &r);
    let r = parse_tls_extension_ec_point_formats(&[0, 0x0a, 0, 2, 1, 0]);
    show("4a' ec_point_formats rejects type 10", r.is_err(), &r);
    let r = parse_tls_extension_heartbeat(&[0, 0x0f, 0, 1, 1]);
    show("4b heartbeat accepts type 15", r.is_ok(), &r);
    let r = parse_tls_extension_pre_shared_key(&[0, 0x29, 0, 1, 1]);
    show("4c pre_shared_key accepts type 41", r.is_ok(), &r);
    // 5. server dispatcher 22
    let r = parse_tls_server_hello_extension(&[0, 22, 0, 0]);
    show("5 server ext 22 -> EncryptThenMac", matches!(r, Ok((_, TlsExtension::EncryptThenMac))), &r);
    let r = parse_tls_server_hello_extension(&[0, 21, 0, 0]);
    show("5' server ext 21 not EncryptThenMac", !matches!(r, Ok((_, TlsExtension::EncryptThenMac))), &r);
    // 6. GREASE
    let r = parse_tls_extension(&[0x0a, 0x1a, 0, 0]);
    show("6 type 0x0a1a is Unknown not Grease", matches!(r, Ok((_, TlsExtension::Unknown(..)))), &r);
    // 7. state machine
    let m = TlsMessage::Handshake(TlsMessageHandshake::CertificateVerify(&[]));
    let r = tls_state_transition(TlsState::CRClientKeyExchange, &m, false);
    show("7 server-sent CertificateVerify rejected", r.is_err(), &r);
    let r = tls_state_transition(TlsState::CRClientKeyExchange, &m, true);
    show("7' client-sent CertificateVerify accepted", r.is_ok(), &r);
    // 8. CCS serializer
    let v = cookie_factory::gen_simple(gen_tls_message(&TlsMessage::ChangeCipherSpec), Vec::new()).unwrap();
    let r = parse_tls_message_changecipherspec(&v);
    show("8 serialized CCS parses back", r.is_ok(), (&v, &r));
    // 9. rand_time
    let mut random = [0u8; 32]; random[0] = 1; random[1] = 2; random[2] = 3; random[3] = 4;
    let ch = TlsClientHelloContents::new(0x0303, &random, None, vec![], vec![], None);
    show("9 rand_time = 0x01020304", ch.rand_time() == 0x01020304, ch.rand_time());
    // 10. key_bits
    show("10 BrainpoolP512r1 key_bits = 512", NamedGroup::BrainpoolP512r1.key_bits() == Some(512), NamedGroup::BrainpoolP512r1.key_bits());
    let _ = ErrorKind::Tag;
}
