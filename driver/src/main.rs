// tlsfacts: rustc_private fact extractor for the tls-parser static checks.
//
// Used as RUSTC_WORKSPACE_WRAPPER under `cargo +nightly check`. For the crate named by
// TLSFACTS_CRATE (default "tls_parser") it writes $TLSFACTS_OUT/<crate>.json with:
//   meta, fns (HIR trees with resolved paths + MIR summaries), adts, consts, impls, unsafe
// Nothing of the analysed crate is executed (const evaluation is the compiler's own).
#![feature(rustc_private)]
#![allow(unused)]

extern crate rustc_abi;
extern crate rustc_ast;
extern crate rustc_data_structures;
extern crate rustc_driver;
extern crate rustc_hir;
extern crate rustc_infer;
extern crate rustc_interface;
extern crate rustc_lint;
extern crate rustc_middle;
extern crate rustc_span;
extern crate rustc_trait_selection;

use rustc_ast::LitKind;
use rustc_driver::Compilation;
use rustc_hir as hir;
use rustc_hir::def::{DefKind, Res};
use rustc_hir::def_id::{DefId, LocalDefId, LOCAL_CRATE};
use rustc_infer::infer::TyCtxtInferExt;
use rustc_middle::mir;
use rustc_middle::ty::print::{with_no_trimmed_paths, with_no_visible_paths};
use rustc_middle::ty::{self, Ty, TyCtxt, TypeckResults};
use rustc_span::{sym, Span, Symbol};
use rustc_trait_selection::infer::InferCtxtExt;
use std::fmt::Write as _;

// ---------------------------------------------------------------- JSON
enum J {
    Null,
    B(bool),
    I(i128),
    S(String),
    A(Vec<J>),
    O(Vec<(&'static str, J)>),
}

fn esc(s: &str, out: &mut String) {
    out.push('"');
    for c in s.chars() {
        match c {
            '"' => out.push_str("\\\""),
            '\\' => out.push_str("\\\\"),
            '\n' => out.push_str("\\n"),
            '\r' => out.push_str("\\r"),
            '\t' => out.push_str("\\t"),
            c if (c as u32) < 0x20 => {
                let _ = write!(out, "\\u{:04x}", c as u32);
            }
            c => out.push(c),
        }
    }
    out.push('"');
}

impl J {
    fn write(&self, out: &mut String) {
        match self {
            J::Null => out.push_str("null"),
            J::B(b) => out.push_str(if *b { "true" } else { "false" }),
            J::I(i) => {
                let _ = write!(out, "{}", i);
            }
            J::S(s) => esc(s, out),
            J::A(v) => {
                out.push('[');
                for (n, x) in v.iter().enumerate() {
                    if n > 0 {
                        out.push(',');
                    }
                    x.write(out);
                }
                out.push(']');
            }
            J::O(v) => {
                out.push('{');
                for (n, (k, x)) in v.iter().enumerate() {
                    if n > 0 {
                        out.push(',');
                    }
                    esc(k, out);
                    out.push(':');
                    x.write(out);
                }
                out.push('}');
            }
        }
    }
}

fn s(x: impl Into<String>) -> J {
    J::S(x.into())
}
fn opt(x: Option<J>) -> J {
    x.unwrap_or(J::Null)
}

// ---------------------------------------------------------------- helpers
fn path_of<'tcx>(tcx: TyCtxt<'tcx>, did: DefId) -> String {
    with_no_trimmed_paths!(with_no_visible_paths!(tcx.def_path_str(did)))
}
fn ty_str<'tcx>(t: Ty<'tcx>) -> String {
    with_no_trimmed_paths!(with_no_visible_paths!(format!("{}", t)))
}
fn dbg_str<T: std::fmt::Debug>(t: &T) -> String {
    with_no_trimmed_paths!(with_no_visible_paths!(format!("{:?}", t)))
}

fn span_fields<'tcx>(tcx: TyCtxt<'tcx>, sp: Span, o: &mut Vec<(&'static str, J)>) {
    let sm = tcx.sess.source_map();
    let cs = sp.source_callsite();
    let lo = sm.lookup_char_pos(cs.lo());
    let hi = sm.lookup_char_pos(cs.hi());
    let fname = match &lo.file.name {
        rustc_span::FileName::Real(r) => match r.local_path() {
            Some(p) => p.display().to_string(),
            None => format!("{:?}", r),
        },
        other => format!("{:?}", other),
    };
    o.push(("loc", s(format!("{}:{}:{}-{}:{}", fname, lo.line, lo.col.0 + 1, hi.line, hi.col.0 + 1))));
    o.push(("bp", J::A(vec![J::I(sp.lo().0 as i128), J::I(sp.hi().0 as i128)])));
    if sp.from_expansion() {
        let ed = sp.ctxt().outer_expn_data();
        let name = match ed.kind {
            rustc_span::ExpnKind::Macro(_, name) => format!("{}", name),
            rustc_span::ExpnKind::Desugaring(d) => format!("desugar:{:?}", d),
            rustc_span::ExpnKind::AstPass(p) => format!("astpass:{:?}", p),
            rustc_span::ExpnKind::Root => "root".to_string(),
        };
        o.push(("mx", s(name)));
        // all macro names on the expansion stack (outermost last)
        let mut chain = vec![];
        let mut cur = sp;
        let mut guard = 0;
        while cur.from_expansion() && guard < 32 {
            let ed = cur.ctxt().outer_expn_data();
            if let rustc_span::ExpnKind::Macro(_, name) = ed.kind {
                chain.push(s(format!("{}", name)));
            }
            cur = ed.call_site;
            guard += 1;
        }
        o.push(("mxs", J::A(chain)));
    }
}

fn scalar_of_const<'tcx>(tcx: TyCtxt<'tcx>, did: DefId) -> Option<i128> {
    match tcx.def_kind(did) {
        DefKind::Const { .. } | DefKind::AssocConst { .. } => {}
        _ => return None,
    }
    if tcx.generics_of(did).count() != 0 {
        // generic parents (none expected in this crate): do not try
        if tcx.generics_of(did).own_requires_monomorphization() || tcx.generics_of(did).parent_count != 0 {
            let g = tcx.generics_of(did);
            // lifetimes only are fine
            let mut only_lt = true;
            let mut cur = Some(g);
            while let Some(gg) = cur {
                for p in &gg.own_params {
                    if !matches!(p.kind, ty::GenericParamDefKind::Lifetime) {
                        only_lt = false;
                    }
                }
                cur = gg.parent.map(|p| tcx.generics_of(p));
            }
            if !only_lt {
                return None;
            }
        }
    }
    let v = tcx.const_eval_poly(did).ok()?;
    let si = v.try_to_scalar_int()?;
    Some(si.to_bits_unchecked() as i128)
}

struct Cx<'tcx> {
    tcx: TyCtxt<'tcx>,
    typeck: &'tcx TypeckResults<'tcx>,
    owner: LocalDefId,
    unsafe_sites: Vec<J>,
}

impl<'tcx> Cx<'tcx> {
    fn res_fields(&self, res: Res, hir_id: hir::HirId, o: &mut Vec<(&'static str, J)>) {
        let tcx = self.tcx;
        match res {
            Res::Local(hid) => {
                o.push(("k", s("local")));
                o.push(("name", s(tcx.hir_name(hid).to_string())));
                o.push(("id", J::I(hid.local_id.as_u32() as i128)));
            }
            Res::Def(kind, did) => {
                o.push(("k", s("path")));
                o.push(("dk", s(format!("{:?}", kind))));
                o.push(("path", s(path_of(tcx, did))));
                o.push(("local", J::B(did.is_local())));
                let args = self.typeck.node_args(hir_id);
                if !args.is_empty() {
                    o.push(("args", J::A(args.iter().map(|a| s(dbg_str(&a))).collect())));
                }
                match kind {
                    DefKind::Fn | DefKind::AssocFn => {
                        self.resolve_fields(did, args, o);
                    }
                    DefKind::Const { .. } | DefKind::AssocConst { .. } => {
                        if let Some(v) = scalar_of_const(tcx, did) {
                            o.push(("val", J::I(v)));
                        }
                    }
                    DefKind::Ctor(..) => {
                        let parent = tcx.parent(did);
                        o.push(("ctor_of", s(path_of(tcx, parent))));
                    }
                    _ => {}
                }
            }
            Res::SelfTyAlias { alias_to, .. } => {
                // `Self { .. }` / `Self(..)` inside an impl: name the type the alias stands for
                o.push(("k", s("path")));
                let ty = tcx.type_of(alias_to).instantiate_identity().skip_norm_wip();
                if let ty::Adt(def, _) = ty.kind() {
                    o.push(("dk", s(format!("{:?}", tcx.def_kind(def.did())))));
                    o.push(("path", s(path_of(tcx, def.did()))));
                    o.push(("local", J::B(def.did().is_local())));
                    o.push(("self_alias", J::B(true)));
                } else {
                    o.push(("dk", s("SelfTyAlias".to_string())));
                    o.push(("path", s(format!("{:?}", res))));
                }
            }
            Res::SelfCtor(imp) => {
                // `Self(..)` of a tuple struct: name the constructor the alias stands for
                o.push(("k", s("path")));
                let ty = tcx.type_of(imp).instantiate_identity().skip_norm_wip();
                let mut done = false;
                if let ty::Adt(def, _) = ty.kind() {
                    if def.is_struct() {
                        if let Some((ck, cdid)) = def.non_enum_variant().ctor {
                            o.push(("dk", s(format!("{:?}", DefKind::Ctor(hir::def::CtorOf::Struct, ck)))));
                            o.push(("path", s(path_of(tcx, cdid))));
                            o.push(("local", J::B(cdid.is_local())));
                            o.push(("ctor_of", s(path_of(tcx, def.did()))));
                            o.push(("self_alias", J::B(true)));
                            done = true;
                        }
                    }
                }
                if !done {
                    o.push(("dk", s("SelfCtor".to_string())));
                    o.push(("path", s(format!("{:?}", res))));
                }
            }
            other => {
                o.push(("k", s("path")));
                o.push(("dk", s(format!("{:?}", other))));
                o.push(("path", s(format!("{:?}", other))));
            }
        }
    }

    fn resolve_fields(&self, did: DefId, args: ty::GenericArgsRef<'tcx>, o: &mut Vec<(&'static str, J)>) {
        let tcx = self.tcx;
        if let Some(tr) = tcx.trait_of_assoc(did) {
            o.push(("trait", s(path_of(tcx, tr))));
            if tcx.generics_of(did).count() != args.len() {
                return;
            }
            let env = ty::TypingEnv::post_analysis(tcx, self.owner);
            let r = std::panic::catch_unwind(std::panic::AssertUnwindSafe(|| {
                ty::Instance::try_resolve(tcx, env, did, args)
            }));
            if let Ok(Ok(Some(inst))) = r {
                let rd = inst.def_id();
                if rd != did {
                    o.push(("resolved", s(path_of(tcx, rd))));
                    o.push(("resolved_local", J::B(rd.is_local())));
                }
            }
        }
    }

    fn lit(&self, l: &hir::Lit, negated: bool, o: &mut Vec<(&'static str, J)>) {
        o.push(("k", s("lit")));
        match &l.node {
            LitKind::Int(v, _) => {
                let n = v.get() as i128;
                o.push(("v", J::I(if negated { -n } else { n })));
            }
            LitKind::Byte(b) => o.push(("v", J::I(*b as i128))),
            LitKind::Bool(b) => o.push(("b", J::B(*b))),
            LitKind::Str(sym, _) => o.push(("s", s(sym.to_string()))),
            LitKind::ByteStr(bs, _) => {
                o.push(("bytes", J::A(bs.as_byte_str().iter().map(|b| J::I(*b as i128)).collect())))
            }
            LitKind::Char(c) => o.push(("c", s(c.to_string()))),
            other => o.push(("other", s(format!("{:?}", other)))),
        }
    }

    fn pat(&mut self, p: &'tcx hir::Pat<'tcx>) -> J {
        let mut o: Vec<(&'static str, J)> = vec![];
        match p.kind {
            hir::PatKind::Wild => o.push(("k", s("wild"))),
            hir::PatKind::Missing => o.push(("k", s("missing"))),
            hir::PatKind::Never => o.push(("k", s("never"))),
            hir::PatKind::Binding(mode, hid, ident, sub) => {
                o.push(("k", s("bind")));
                o.push(("name", s(ident.name.to_string())));
                o.push(("id", J::I(hid.local_id.as_u32() as i128)));
                o.push(("mode", s(format!("{:?}", mode))));
                if let Some(sp) = sub {
                    o.push(("sub", self.pat(sp)));
                }
            }
            hir::PatKind::Struct(ref qp, fields, rest) => {
                o.push(("k", s("pstruct")));
                let res = self.typeck.qpath_res(qp, p.hir_id);
                let mut r = vec![];
                self.res_fields(res, p.hir_id, &mut r);
                o.push(("res", J::O(r)));
                o.push((
                    "fields",
                    J::A(fields
                        .iter()
                        .map(|f| J::O(vec![("name", s(f.ident.name.to_string())), ("pat", self.pat(f.pat))]))
                        .collect()),
                ));
                o.push(("rest", J::B(rest.is_some())));
            }
            hir::PatKind::TupleStruct(ref qp, pats, ddpos) => {
                o.push(("k", s("ptuplestruct")));
                let res = self.typeck.qpath_res(qp, p.hir_id);
                let mut r = vec![];
                self.res_fields(res, p.hir_id, &mut r);
                o.push(("res", J::O(r)));
                o.push(("pats", J::A(pats.iter().map(|x| self.pat(x)).collect())));
                o.push(("ddpos", opt(ddpos.as_opt_usize().map(|u| J::I(u as i128)))));
            }
            hir::PatKind::Or(pats) => {
                o.push(("k", s("por")));
                o.push(("pats", J::A(pats.iter().map(|x| self.pat(x)).collect())));
            }
            hir::PatKind::Tuple(pats, ddpos) => {
                o.push(("k", s("ptuple")));
                o.push(("pats", J::A(pats.iter().map(|x| self.pat(x)).collect())));
                o.push(("ddpos", opt(ddpos.as_opt_usize().map(|u| J::I(u as i128)))));
            }
            hir::PatKind::Box(x) | hir::PatKind::Deref(x) => {
                o.push(("k", s("pderef")));
                o.push(("pat", self.pat(x)));
            }
            hir::PatKind::Ref(x, _, m) => {
                o.push(("k", s("pref")));
                o.push(("pat", self.pat(x)));
            }
            hir::PatKind::Expr(pe) => {
                o.push(("k", s("pexpr")));
                o.push(("e", self.pat_expr(pe)));
            }
            hir::PatKind::Guard(x, g) => {
                o.push(("k", s("pguard")));
                o.push(("pat", self.pat(x)));
                o.push(("guard", self.expr(g)));
            }
            hir::PatKind::Range(lo, hi, end) => {
                o.push(("k", s("prange")));
                o.push(("lo", opt(lo.map(|x| self.pat_expr(x)))));
                o.push(("hi", opt(hi.map(|x| self.pat_expr(x)))));
                o.push(("end", s(format!("{:?}", end))));
            }
            hir::PatKind::Slice(a, m, b) => {
                o.push(("k", s("pslice")));
                o.push(("before", J::A(a.iter().map(|x| self.pat(x)).collect())));
                o.push(("mid", opt(m.map(|x| self.pat(x)))));
                o.push(("after", J::A(b.iter().map(|x| self.pat(x)).collect())));
            }
            hir::PatKind::Err(_) => o.push(("k", s("perr"))),
        }
        o.push(("ty", s(ty_str(self.typeck.pat_ty(p)))));
        J::O(o)
    }

    fn pat_expr(&mut self, pe: &'tcx hir::PatExpr<'tcx>) -> J {
        let mut o: Vec<(&'static str, J)> = vec![];
        match &pe.kind {
            hir::PatExprKind::Lit { lit, negated } => self.lit(lit, *negated, &mut o),
            hir::PatExprKind::Path(qp) => {
                let res = self.typeck.qpath_res(qp, pe.hir_id);
                self.res_fields(res, pe.hir_id, &mut o);
            }
        }
        J::O(o)
    }

    fn block(&mut self, b: &'tcx hir::Block<'tcx>) -> J {
        let mut o: Vec<(&'static str, J)> = vec![("k", s("block"))];
        if let hir::BlockCheckMode::UnsafeBlock(src) = b.rules {
            o.push(("unsafe", s(format!("{:?}", src))));
            let mut u: Vec<(&'static str, J)> = vec![("what", s("block")), ("src", s(format!("{:?}", src)))];
            span_fields(self.tcx, b.span, &mut u);
            u.push(("owner", s(path_of(self.tcx, self.owner.to_def_id()))));
            self.unsafe_sites.push(J::O(u));
        }
        let mut stmts = vec![];
        for st in b.stmts {
            match st.kind {
                hir::StmtKind::Let(l) => {
                    let mut lo: Vec<(&'static str, J)> = vec![("k", s("let"))];
                    lo.push(("pat", self.pat(l.pat)));
                    lo.push(("init", opt(l.init.map(|e| self.expr(e)))));
                    lo.push(("els", opt(l.els.map(|b| self.block(b)))));
                    lo.push(("src", s(format!("{:?}", l.source))));
                    span_fields(self.tcx, st.span, &mut lo);
                    stmts.push(J::O(lo));
                }
                hir::StmtKind::Item(_) => stmts.push(J::O(vec![("k", s("item"))])),
                hir::StmtKind::Expr(e) => stmts.push(J::O(vec![("k", s("sexpr")), ("e", self.expr(e))])),
                hir::StmtKind::Semi(e) => stmts.push(J::O(vec![("k", s("semi")), ("e", self.expr(e))])),
            }
        }
        o.push(("stmts", J::A(stmts)));
        o.push(("expr", opt(b.expr.map(|e| self.expr(e)))));
        J::O(o)
    }

    fn expr(&mut self, e: &'tcx hir::Expr<'tcx>) -> J {
        let tcx = self.tcx;
        let mut o: Vec<(&'static str, J)> = vec![];
        match e.kind {
            hir::ExprKind::Path(ref qp) => {
                let res = self.typeck.qpath_res(qp, e.hir_id);
                self.res_fields(res, e.hir_id, &mut o);
            }
            hir::ExprKind::Lit(l) => self.lit(&l, false, &mut o),
            hir::ExprKind::Call(f, args) => {
                o.push(("k", s("call")));
                o.push(("f", self.expr(f)));
                o.push(("args", J::A(args.iter().map(|a| self.expr(a)).collect())));
            }
            hir::ExprKind::MethodCall(seg, recv, args, _) => {
                o.push(("k", s("mcall")));
                o.push(("name", s(seg.ident.name.to_string())));
                if let Some(did) = self.typeck.type_dependent_def_id(e.hir_id) {
                    o.push(("path", s(path_of(tcx, did))));
                    o.push(("local", J::B(did.is_local())));
                    let ga = self.typeck.node_args(e.hir_id);
                    if !ga.is_empty() {
                        o.push(("gargs", J::A(ga.iter().map(|a| s(dbg_str(&a))).collect())));
                    }
                    self.resolve_fields(did, ga, &mut o);
                }
                o.push(("recv", self.expr(recv)));
                o.push(("recv_ty_adj", s(ty_str(self.typeck.expr_ty_adjusted(recv)))));
                o.push(("args", J::A(args.iter().map(|a| self.expr(a)).collect())));
            }
            hir::ExprKind::Tup(xs) => {
                o.push(("k", s("tup")));
                o.push(("xs", J::A(xs.iter().map(|a| self.expr(a)).collect())));
            }
            hir::ExprKind::Array(xs) => {
                o.push(("k", s("array")));
                o.push(("xs", J::A(xs.iter().map(|a| self.expr(a)).collect())));
            }
            hir::ExprKind::Repeat(x, n) => {
                o.push(("k", s("repeat")));
                o.push(("x", self.expr(x)));
                o.push(("n", s(format!("{:?}", n.kind))));
            }
            hir::ExprKind::Binary(op, a, b) => {
                o.push(("k", s("bin")));
                o.push(("op", s(op.node.as_str())));
                o.push(("a", self.expr(a)));
                o.push(("b", self.expr(b)));
                if let Some(did) = self.typeck.type_dependent_def_id(e.hir_id) {
                    // overloaded operator
                    o.push(("overload", s(path_of(tcx, did))));
                }
            }
            hir::ExprKind::Unary(op, a) => {
                o.push(("k", s("un")));
                o.push(("op", s(op.as_str())));
                o.push(("a", self.expr(a)));
                if let Some(did) = self.typeck.type_dependent_def_id(e.hir_id) {
                    o.push(("overload", s(path_of(tcx, did))));
                }
            }
            hir::ExprKind::Cast(x, _) => {
                o.push(("k", s("cast")));
                o.push(("x", self.expr(x)));
                o.push(("from", s(ty_str(self.typeck.expr_ty(x)))));
            }
            hir::ExprKind::Type(x, _) => {
                o.push(("k", s("ascribe")));
                o.push(("x", self.expr(x)));
            }
            hir::ExprKind::DropTemps(x) => {
                o.push(("k", s("droptemps")));
                o.push(("x", self.expr(x)));
            }
            hir::ExprKind::Use(x, _) => {
                o.push(("k", s("use")));
                o.push(("x", self.expr(x)));
            }
            hir::ExprKind::Let(l) => {
                o.push(("k", s("letexpr")));
                o.push(("pat", self.pat(l.pat)));
                o.push(("init", self.expr(l.init)));
            }
            hir::ExprKind::If(c, t, f) => {
                o.push(("k", s("if")));
                o.push(("c", self.expr(c)));
                o.push(("t", self.expr(t)));
                o.push(("f", opt(f.map(|x| self.expr(x)))));
            }
            hir::ExprKind::Loop(b, _, src, _) => {
                o.push(("k", s("loop")));
                o.push(("src", s(format!("{:?}", src))));
                o.push(("body", self.block(b)));
            }
            hir::ExprKind::Match(sc, arms, src) => {
                o.push(("k", s("match")));
                o.push(("src", s(format!("{:?}", src))));
                o.push(("scrut", self.expr(sc)));
                let mut av = vec![];
                for a in arms {
                    let mut ao: Vec<(&'static str, J)> = vec![];
                    ao.push(("pat", self.pat(a.pat)));
                    ao.push(("guard", opt(a.guard.map(|g| self.expr(g)))));
                    ao.push(("body", self.expr(a.body)));
                    span_fields(tcx, a.span, &mut ao);
                    av.push(J::O(ao));
                }
                o.push(("arms", J::A(av)));
            }
            hir::ExprKind::Closure(c) => {
                o.push(("k", s("closure")));
                o.push(("def", s(path_of(tcx, c.def_id.to_def_id()))));
                o.push(("capture", s(format!("{:?}", c.capture_clause))));
                let body = tcx.hir_body(c.body);
                o.push(("params", J::A(body.params.iter().map(|p| self.pat(p.pat)).collect())));
                o.push(("body", self.expr(body.value)));
            }
            hir::ExprKind::Block(b, _) => {
                return {
                    let mut j = self.block(b);
                    if let J::O(ref mut v) = j {
                        v.push(("ty", s(ty_str(self.typeck.expr_ty(e)))));
                        span_fields(tcx, e.span, v);
                    }
                    j
                };
            }
            hir::ExprKind::Assign(a, b, _) => {
                o.push(("k", s("assign")));
                o.push(("a", self.expr(a)));
                o.push(("b", self.expr(b)));
            }
            hir::ExprKind::AssignOp(op, a, b) => {
                o.push(("k", s("assignop")));
                o.push(("op", s(op.node.as_str())));
                o.push(("a", self.expr(a)));
                o.push(("b", self.expr(b)));
            }
            hir::ExprKind::Field(x, id) => {
                o.push(("k", s("field")));
                o.push(("x", self.expr(x)));
                o.push(("name", s(id.name.to_string())));
                o.push(("of", s(ty_str(self.typeck.expr_ty_adjusted(x)))));
            }
            hir::ExprKind::Index(x, i, _) => {
                o.push(("k", s("index")));
                o.push(("x", self.expr(x)));
                o.push(("i", self.expr(i)));
                o.push(("of", s(ty_str(self.typeck.expr_ty_adjusted(x)))));
                if let Some(did) = self.typeck.type_dependent_def_id(e.hir_id) {
                    o.push(("overload", s(path_of(tcx, did))));
                }
            }
            hir::ExprKind::AddrOf(_, m, x) => {
                o.push(("k", s("addrof")));
                o.push(("mut", J::B(m.is_mut())));
                o.push(("x", self.expr(x)));
            }
            hir::ExprKind::Break(_, x) => {
                o.push(("k", s("break")));
                o.push(("x", opt(x.map(|x| self.expr(x)))));
            }
            hir::ExprKind::Continue(_) => o.push(("k", s("continue"))),
            hir::ExprKind::Ret(x) => {
                o.push(("k", s("ret")));
                o.push(("x", opt(x.map(|x| self.expr(x)))));
            }
            hir::ExprKind::Struct(qp, fields, tail) => {
                o.push(("k", s("struct")));
                let res = self.typeck.qpath_res(qp, e.hir_id);
                let mut r = vec![];
                self.res_fields(res, e.hir_id, &mut r);
                o.push(("res", J::O(r)));
                o.push((
                    "fields",
                    J::A(fields
                        .iter()
                        .map(|f| J::O(vec![("name", s(f.ident.name.to_string())), ("e", self.expr(f.expr))]))
                        .collect()),
                ));
                match tail {
                    hir::StructTailExpr::Base(b) => o.push(("base", self.expr(b))),
                    hir::StructTailExpr::None => {}
                    _ => o.push(("base_other", J::B(true))),
                }
            }
            hir::ExprKind::ConstBlock(ref cb) => {
                o.push(("k", s("constblock")));
                let body = tcx.hir_body(cb.body);
                // separate typeck; do not descend
            }
            ref other => {
                o.push(("k", s("other")));
                let d = format!("{:?}", other);
                o.push(("what", s(d.split(|c: char| !c.is_alphanumeric()).next().unwrap_or("").to_string())));
            }
        }
        o.push(("ty", s(ty_str(self.typeck.expr_ty(e)))));
        span_fields(tcx, e.span, &mut o);
        // adjustments that call user code (Deref overloads) are worth knowing about
        let adj = self.typeck.expr_adjustments(e);
        let mut overloaded = vec![];
        for a in adj {
            if let ty::adjustment::Adjust::Deref(ty::adjustment::DerefAdjustKind::Overloaded(_)) = a.kind {
                overloaded.push(s(ty_str(a.target)));
            }
        }
        if !overloaded.is_empty() {
            o.push(("overloaded_deref", J::A(overloaded)));
        }
        J::O(o)
    }
}

fn operand_j<'tcx>(tcx: TyCtxt<'tcx>, op: &mir::Operand<'tcx>) -> J {
    match op {
        mir::Operand::Constant(c) => {
            let mut o: Vec<(&'static str, J)> = vec![("const", s(dbg_str(&c.const_)))];
            if let Some(si) = c.const_.try_to_scalar_int() {
                o.push(("v", J::I(si.to_bits_unchecked() as i128)));
            }
            J::O(o)
        }
        other => J::O(vec![("place", s(dbg_str(other)))]),
    }
}

fn mir_summary<'tcx>(tcx: TyCtxt<'tcx>, ldid: LocalDefId) -> J {
    let body = tcx.optimized_mir(ldid.to_def_id());
    let env = ty::TypingEnv::post_analysis(tcx, ldid);
    let mut asserts = vec![];
    let mut calls = vec![];
    let mut switches = 0i128;
    let mut stmts = 0i128;
    for (bb, data) in body.basic_blocks.iter_enumerated() {
        stmts += data.statements.len() as i128;
        let term = data.terminator();
        let sp = term.source_info.span;
        match &term.kind {
            mir::TerminatorKind::Assert { cond, expected, msg, .. } => {
                let mut o: Vec<(&'static str, J)> = vec![];
                let (kind, ops): (String, Vec<J>) = match &**msg {
                    mir::AssertKind::BoundsCheck { len, index } => {
                        ("BoundsCheck".into(), vec![operand_j(tcx, len), operand_j(tcx, index)])
                    }
                    mir::AssertKind::Overflow(op, a, b) => {
                        (format!("Overflow({:?})", op), vec![operand_j(tcx, a), operand_j(tcx, b)])
                    }
                    mir::AssertKind::OverflowNeg(a) => ("OverflowNeg".into(), vec![operand_j(tcx, a)]),
                    mir::AssertKind::DivisionByZero(a) => ("DivisionByZero".into(), vec![operand_j(tcx, a)]),
                    mir::AssertKind::RemainderByZero(a) => ("RemainderByZero".into(), vec![operand_j(tcx, a)]),
                    mir::AssertKind::MisalignedPointerDereference { .. } => ("MisalignedPointerDereference".into(), vec![]),
                    mir::AssertKind::NullPointerDereference => ("NullPointerDereference".into(), vec![]),
                    other => (dbg_str(other).split('(').next().unwrap_or("").to_string(), vec![]),
                };
                o.push(("kind", s(kind)));
                o.push(("ops", J::A(ops)));
                o.push(("bb", J::I(bb.as_u32() as i128)));
                span_fields(tcx, sp, &mut o);
                asserts.push(J::O(o));
            }
            mir::TerminatorKind::Call { func, args, fn_span, .. } | mir::TerminatorKind::TailCall { func, args, fn_span } => {
                let mut o: Vec<(&'static str, J)> = vec![];
                if let Some((did, ga)) = func.const_fn_def() {
                    o.push(("callee", s(path_of(tcx, did))));
                    o.push(("local", J::B(did.is_local())));
                    let r = std::panic::catch_unwind(std::panic::AssertUnwindSafe(|| {
                        ty::Instance::try_resolve(tcx, env, did, ga)
                    }));
                    if let Ok(Ok(Some(inst))) = r {
                        let rd = inst.def_id();
                        if rd != did {
                            o.push(("resolved", s(path_of(tcx, rd))));
                            o.push(("resolved_local", J::B(rd.is_local())));
                        }
                    }
                    o.push(("gargs", J::A(ga.iter().map(|a| s(dbg_str(&a))).collect())));
                } else {
                    o.push(("callee", J::Null));
                    o.push(("indirect", s(dbg_str(func))));
                }
                o.push(("args", J::A(args.iter().map(|a| operand_j(tcx, &a.node)).collect())));
                o.push(("bb", J::I(bb.as_u32() as i128)));
                span_fields(tcx, sp, &mut o);
                calls.push(J::O(o));
            }
            mir::TerminatorKind::SwitchInt { .. } => switches += 1,
            _ => {}
        }
    }
    let cyclic = rustc_data_structures::graph::is_cyclic(&body.basic_blocks);
    J::O(vec![
        ("blocks", J::I(body.basic_blocks.len() as i128)),
        ("stmts", J::I(stmts)),
        ("switches", J::I(switches)),
        ("cyclic", J::B(cyclic)),
        ("asserts", J::A(asserts)),
        ("calls", J::A(calls)),
    ])
}

struct Cb;

impl rustc_driver::Callbacks for Cb {
    fn after_analysis<'tcx>(&mut self, _c: &rustc_interface::interface::Compiler, tcx: TyCtxt<'tcx>) -> Compilation {
        let want = std::env::var("TLSFACTS_CRATE").unwrap_or_else(|_| "tls_parser".to_string());
        let cname = tcx.crate_name(LOCAL_CRATE).to_string();
        if cname != want {
            return Compilation::Continue;
        }
        let outdir = match std::env::var("TLSFACTS_OUT") {
            Ok(d) => d,
            Err(_) => return Compilation::Continue,
        };
        let nonce = std::env::var("TLSFACTS_NONCE").unwrap_or_default();
        let want_mir = std::env::var("TLSFACTS_MIR").map(|v| v != "0").unwrap_or(true);

        let mut unsafe_sites: Vec<J> = vec![];
        let mut fns: Vec<J> = vec![];
        let mut n_bodies = 0i128;
        let mut n_mir = 0i128;

        // ---------------- bodies
        for ldid in tcx.hir_body_owners() {
            n_bodies += 1;
            let did = ldid.to_def_id();
            let kind = tcx.def_kind(did);
            let mut o: Vec<(&'static str, J)> = vec![];
            o.push(("path", s(path_of(tcx, did))));
            o.push(("dk", s(format!("{:?}", kind))));
            span_fields(tcx, tcx.def_span(did), &mut o);
            let is_fn_like = matches!(kind, DefKind::Fn | DefKind::AssocFn | DefKind::Closure);
            if matches!(kind, DefKind::Fn | DefKind::AssocFn) {
                o.push(("vis", s(format!("{:?}", tcx.visibility(did)))));
                o.push(("exported", J::B(tcx.effective_visibilities(()).is_exported(ldid))));
                let sig = tcx.fn_sig(did).instantiate_identity().skip_norm_wip();
                o.push(("sig", s(dbg_str(&sig))));
                let sk = sig.skip_binder();
                o.push(("inputs", J::A(sk.inputs().iter().map(|t| s(ty_str(*t))).collect())));
                o.push(("output", s(ty_str(sk.output()))));
                if sk.safety().is_unsafe() {
                    let mut u: Vec<(&'static str, J)> = vec![("what", s("fn"))];
                    span_fields(tcx, tcx.def_span(did), &mut u);
                    u.push(("owner", s(path_of(tcx, did))));
                    unsafe_sites.push(J::O(u));
                }
                let g = tcx.generics_of(did);
                o.push((
                    "generics",
                    J::A(g.own_params.iter().map(|p| s(format!("{}:{:?}", p.name, p.kind))).collect()),
                ));
                if let Some(imp) = tcx.impl_of_assoc(did) {
                    o.push(("impl_of", s(path_of(tcx, imp))));
                    o.push(("impl_self", s(ty_str(tcx.type_of(imp).instantiate_identity().skip_norm_wip()))));
                    if let Some(tr) = tcx.impl_opt_trait_ref(imp) {
                        o.push(("impl_trait", s(dbg_str(&tr.instantiate_identity().skip_norm_wip()))));
                        o.push(("impl_trait_path", s(path_of(tcx, tr.skip_binder().def_id))));
                    }
                    o.push(("derived", J::B(tcx.is_automatically_derived(imp))));
                }
                o.push(("name", s(tcx.item_name(did).to_string())));
            }
            if kind != DefKind::Closure {
                // closures are inlined in their parent's tree
                let typeck = tcx.typeck(ldid);
                let mut cx = Cx { tcx, typeck, owner: ldid, unsafe_sites: vec![] };
                let body = tcx.hir_body_owned_by(ldid);
                let params: Vec<J> = body.params.iter().map(|p| cx.pat(p.pat)).collect();
                o.push(("params", J::A(params)));
                let v = cx.expr(body.value);
                o.push(("hir", v));
                unsafe_sites.extend(cx.unsafe_sites.drain(..));
            }
            if want_mir && is_fn_like {
                n_mir += 1;
                o.push(("mir", mir_summary(tcx, ldid)));
            }
            fns.push(J::O(o));
        }

        // ---------------- items: adts, consts, statics, impls
        let mut adts = vec![];
        let mut consts = vec![];
        let mut impls = vec![];
        let mut mods = vec![];
        let send = tcx.get_diagnostic_item(sym::Send);
        let sync = tcx.get_diagnostic_item(sym::Sync);
        let ev = tcx.effective_visibilities(());
        for ldid in tcx.hir_crate_items(()).definitions() {
            let did = ldid.to_def_id();
            let kind = tcx.def_kind(did);
            match kind {
                DefKind::Struct | DefKind::Enum | DefKind::Union => {
                    let adt = tcx.adt_def(did);
                    let mut o: Vec<(&'static str, J)> = vec![];
                    o.push(("path", s(path_of(tcx, did))));
                    o.push(("dk", s(format!("{:?}", kind))));
                    o.push(("exported", J::B(ev.is_exported(ldid))));
                    span_fields(tcx, tcx.def_span(did), &mut o);
                    let g = tcx.generics_of(did);
                    o.push((
                        "generics",
                        J::A(g.own_params.iter().map(|p| s(format!("{}:{:?}", p.name, p.kind))).collect()),
                    ));
                    let mut vs = vec![];
                    let discrs: Vec<u128> = if adt.is_enum() { adt.discriminants(tcx).map(|(_, d)| d.val).collect() } else { vec![] };
                    for (vi, v) in adt.variants().iter().enumerate() {
                        let mut fo = vec![];
                        for f in &v.fields {
                            let fty = tcx.type_of(f.did).instantiate_identity().skip_norm_wip();
                            fo.push(J::O(vec![
                                ("name", s(f.name.to_string())),
                                ("ty", s(ty_str(fty))),
                                ("public", J::B(f.vis.is_public())),
                            ]));
                        }
                        let mut vo: Vec<(&'static str, J)> = vec![("name", s(v.name.to_string())), ("fields", J::A(fo))];
                        vo.push(("ctor", s(format!("{:?}", v.ctor_kind()))));
                        if let Some(d) = discrs.get(vi) {
                            vo.push(("discr", J::I(*d as i128)));
                        }
                        vs.push(J::O(vo));
                    }
                    o.push(("variants", J::A(vs)));
                    o.push(("repr", s(format!("{:?}", adt.repr()))));
                    let aty = tcx.type_of(did).instantiate_identity().skip_norm_wip();
                    let infcx = tcx.infer_ctxt().build(ty::TypingMode::non_body_analysis());
                    let pe = tcx.param_env(did);
                    for (nm, tr) in [("send", send), ("sync", sync)] {
                        if let Some(tr) = tr {
                            let r = infcx.type_implements_trait(tr, [aty], pe);
                            o.push((nm, J::B(r.must_apply_modulo_regions())));
                        }
                    }
                    adts.push(J::O(o));
                }
                DefKind::Const { .. } | DefKind::AssocConst { .. } | DefKind::Static { .. } => {
                    let mut o: Vec<(&'static str, J)> = vec![];
                    o.push(("path", s(path_of(tcx, did))));
                    o.push(("dk", s(format!("{:?}", kind))));
                    o.push(("exported", J::B(ev.is_exported(ldid))));
                    let t = tcx.type_of(did).instantiate_identity().skip_norm_wip();
                    o.push(("ty", s(ty_str(t))));
                    if let Some(v) = scalar_of_const(tcx, did) {
                        o.push(("val", J::I(v)));
                    }
                    if let Some(imp) = tcx.impl_of_assoc(did) {
                        o.push(("impl_self", s(ty_str(tcx.type_of(imp).instantiate_identity().skip_norm_wip()))));
                    }
                    if matches!(kind, DefKind::Static { .. }) {
                        if let Some(tr) = sync {
                            let infcx = tcx.infer_ctxt().build(ty::TypingMode::non_body_analysis());
                            let r = infcx.type_implements_trait(tr, [t], tcx.param_env(did));
                            o.push(("sync", J::B(r.must_apply_modulo_regions())));
                        }
                    }
                    // the initialiser (tables written as constants are read by the abstract evaluators)
                    if !ty_str(t).contains("phf::") {
                        if let Some(body) = tcx.hir_maybe_body_owned_by(ldid) {
                            let typeck = tcx.typeck(ldid);
                            let mut cx = Cx { tcx, typeck, owner: ldid, unsafe_sites: vec![] };
                            let v = cx.expr(body.value);
                            o.push(("hir", v));
                            unsafe_sites.extend(cx.unsafe_sites.drain(..));
                        }
                    }
                    span_fields(tcx, tcx.def_span(did), &mut o);
                    consts.push(J::O(o));
                }
                DefKind::Impl { of_trait } => {
                    let mut o: Vec<(&'static str, J)> = vec![];
                    o.push(("path", s(path_of(tcx, did))));
                    o.push(("self", s(ty_str(tcx.type_of(did).instantiate_identity().skip_norm_wip()))));
                    if of_trait {
                        let hdr = tcx.impl_trait_header(did);
                        let tr = hdr.trait_ref.instantiate_identity().skip_norm_wip();
                        o.push(("trait", s(dbg_str(&tr))));
                        o.push(("trait_path", s(path_of(tcx, tr.def_id))));
                        o.push(("polarity", s(format!("{:?}", hdr.polarity))));
                        if hdr.safety.is_unsafe() {
                            let mut u: Vec<(&'static str, J)> = vec![("what", s("impl"))];
                            span_fields(tcx, tcx.def_span(did), &mut u);
                            u.push(("owner", s(path_of(tcx, did))));
                            unsafe_sites.push(J::O(u));
                        }
                    }
                    o.push(("derived", J::B(tcx.is_automatically_derived(did))));
                    o.push((
                        "items",
                        J::A(tcx.associated_item_def_ids(did).iter().map(|d| s(path_of(tcx, *d))).collect()),
                    ));
                    span_fields(tcx, tcx.def_span(did), &mut o);
                    impls.push(J::O(o));
                }
                DefKind::Trait => {
                    if tcx.trait_def(did).safety.is_unsafe() {
                        let mut u: Vec<(&'static str, J)> = vec![("what", s("trait"))];
                        span_fields(tcx, tcx.def_span(did), &mut u);
                        u.push(("owner", s(path_of(tcx, did))));
                        unsafe_sites.push(J::O(u));
                    }
                }
                DefKind::Mod => {
                    mods.push(s(path_of(tcx, did)));
                }
                _ => {}
            }
        }

        // ---------------- meta
        let mut cfgs: Vec<String> = tcx
            .sess
            .config
            .iter()
            .map(|(k, v)| match v {
                Some(v) => format!("{}={}", k, v),
                None => format!("{}", k),
            })
            .collect();
        cfgs.sort();
        let mut externs: Vec<String> = tcx.crates(()).iter().map(|c| tcx.crate_name(*c).to_string()).collect();
        externs.sort();
        let store = rustc_lint::unerased_lint_store(tcx.sess);
        let unsafe_level = match store.find_lints("unsafe_code") {
            Some(ids) if !ids.is_empty() => format!("{:?}", tcx.lint_level_at_node(ids[0].lint, hir::CRATE_HIR_ID).level),
            _ => "unknown".to_string(),
        };
        let meta = J::O(vec![
            ("crate", s(cname.clone())),
            ("nonce", s(nonce)),
            ("rustc", s(tcx.sess.cfg_version.to_string())),
            ("cfg", J::A(cfgs.into_iter().map(s).collect())),
            ("externs", J::A(externs.into_iter().map(s).collect())),
            ("unsafe_code_level", s(unsafe_level)),
            ("bodies", J::I(n_bodies)),
            ("mir_bodies", J::I(n_mir)),
            ("overflow_checks", J::B(tcx.sess.overflow_checks())),
            ("debug_assertions", J::B(tcx.sess.opts.debug_assertions)),
            ("mir_opt_level", J::I(tcx.sess.mir_opt_level() as i128)),
        ]);

        let root = J::O(vec![
            ("meta", meta),
            ("fns", J::A(fns)),
            ("adts", J::A(adts)),
            ("consts", J::A(consts)),
            ("impls", J::A(impls)),
            ("mods", J::A(mods)),
            ("unsafe", J::A(unsafe_sites)),
        ]);
        let mut out = String::with_capacity(16 << 20);
        root.write(&mut out);
        let path = format!("{}/{}.json", outdir, cname);
        let tmp = format!("{}.tmp{}", path, std::process::id());
        std::fs::write(&tmp, out).expect("tlsfacts: cannot write fact file");
        std::fs::rename(&tmp, &path).expect("tlsfacts: cannot rename fact file");
        Compilation::Continue
    }
}

fn main() {
    let mut args: Vec<String> = std::env::args().collect();
    // RUSTC_WORKSPACE_WRAPPER: argv[1] is the path of the real rustc
    if args.len() > 1 && (args[1].ends_with("rustc") || args[1].contains("/rustc")) {
        args.remove(1);
    }
    let mut cb = Cb;
    rustc_driver::run_compiler(&args, &mut cb);
}
