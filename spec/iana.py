"""IANA / RFC code points for the crate's public registry constants, written by hand from the IANA
TLS parameter registries (tls-parameters, tls-extensiontype-values), RFC 5246, 8446, 6347, 6520,
6066, 6962, 8422, 7919, 8734, 8998, 8701 - not copied from the crate.
Layout: public type path -> {public constant name: (value, IANA name)}.
A constant of the crate that is absent here is reported as 'undecided' (not an alarm)."""

def _seq(names, start=0):
    return {n: (start + i, n) for i, n in enumerate(names)}

IANA = {
 "tls_record::TlsRecordType": {"ChangeCipherSpec": (20, "change_cipher_spec"), "Alert": (21, "alert"), "Handshake": (22, "handshake"),
                               "ApplicationData": (23, "application_data"), "Heartbeat": (24, "heartbeat")},
 "tls_handshake::TlsHandshakeType": {"HelloRequest": (0, "hello_request"), "ClientHello": (1, "client_hello"), "ServerHello": (2, "server_hello"),
     "HelloVerifyRequest": (3, "hello_verify_request"), "NewSessionTicket": (4, "new_session_ticket"), "EndOfEarlyData": (5, "end_of_early_data"),
     "HelloRetryRequest": (6, "hello_retry_request_RESERVED"), "EncryptedExtensions": (8, "encrypted_extensions"), "Certificate": (11, "certificate"),
     "ServerKeyExchange": (12, "server_key_exchange"), "CertificateRequest": (13, "certificate_request"), "ServerDone": (14, "server_hello_done"),
     "CertificateVerify": (15, "certificate_verify"), "ClientKeyExchange": (16, "client_key_exchange"), "Finished": (20, "finished"),
     "CertificateURL": (21, "certificate_url"), "CertificateStatus": (22, "certificate_status"), "KeyUpdate": (24, "key_update"),
     "NextProtocol": (67, "next_protocol (draft-agl-tls-nextprotoneg)")},
 "tls_handshake::TlsVersion": {"Ssl30": (0x0300, "SSL 3.0"), "Tls10": (0x0301, "TLS 1.0"), "Tls11": (0x0302, "TLS 1.1"), "Tls12": (0x0303, "TLS 1.2"), "Tls13": (0x0304, "TLS 1.3"),
     "Tls13Draft18": (0x7f12, "draft 18"), "Tls13Draft19": (0x7f13, "draft 19"), "Tls13Draft20": (0x7f14, "draft 20"), "Tls13Draft21": (0x7f15, "draft 21"),
     "Tls13Draft22": (0x7f16, "draft 22"), "Tls13Draft23": (0x7f17, "draft 23"), "DTls10": (0xfeff, "DTLS 1.0"), "DTls12": (0xfefd, "DTLS 1.2")},
 "tls_handshake::TlsHeartbeatMessageType": {"HeartBeatRequest": (1, "heartbeat_request"), "HeartBeatResponse": (2, "heartbeat_response")},
 "tls_handshake::TlsCompressionID": {"Null": (0, "NULL"), "Deflate": (1, "DEFLATE")},
 "tls_handshake::KeyUpdateRequest": {"NotRequested": (0, "update_not_requested"), "Requested": (1, "update_requested")},
 "tls_alert::TlsAlertSeverity": {"Warning": (1, "warning"), "Fatal": (2, "fatal")},
 "tls_alert::TlsAlertDescription": {"CloseNotify": (0, "close_notify"), "UnexpectedMessage": (10, "unexpected_message"), "BadRecordMac": (20, "bad_record_mac"),
     "DecryptionFailed": (21, "decryption_failed_RESERVED"), "RecordOverflow": (22, "record_overflow"), "DecompressionFailure": (30, "decompression_failure_RESERVED"),
     "HandshakeFailure": (40, "handshake_failure"), "NoCertificate": (41, "no_certificate_RESERVED"), "BadCertificate": (42, "bad_certificate"),
     "UnsupportedCertificate": (43, "unsupported_certificate"), "CertificateRevoked": (44, "certificate_revoked"), "CertificateExpired": (45, "certificate_expired"),
     "CertificateUnknown": (46, "certificate_unknown"), "IllegalParameter": (47, "illegal_parameter"), "UnknownCa": (48, "unknown_ca"), "AccessDenied": (49, "access_denied"),
     "DecodeError": (50, "decode_error"), "DecryptError": (51, "decrypt_error"), "ExportRestriction": (60, "export_restriction_RESERVED"), "ProtocolVersion": (70, "protocol_version"),
     "InsufficientSecurity": (71, "insufficient_security"), "InternalError": (80, "internal_error"), "InappropriateFallback": (86, "inappropriate_fallback"),
     "UserCancelled": (90, "user_canceled"), "NoRenegotiation": (100, "no_renegotiation_RESERVED"), "MissingExtension": (109, "missing_extension"),
     "UnsupportedExtension": (110, "unsupported_extension"), "CertUnobtainable": (111, "certificate_unobtainable_RESERVED"), "UnrecognizedName": (112, "unrecognized_name"),
     "BadCertStatusResponse": (113, "bad_certificate_status_response"), "BadCertHashValue": (114, "bad_certificate_hash_value_RESERVED"),
     "UnknownPskIdentity": (115, "unknown_psk_identity"), "CertificateRequired": (116, "certificate_required"), "NoApplicationProtocol": (120, "no_application_protocol")},
 "tls_extensions::TlsExtensionType": {"ServerName": (0, "server_name"), "MaxFragmentLength": (1, "max_fragment_length"), "ClientCertificate": (2, "client_certificate_url"),
     "TrustedCaKeys": (3, "trusted_ca_keys"), "TruncatedHMac": (4, "truncated_hmac"), "StatusRequest": (5, "status_request"), "UserMapping": (6, "user_mapping"),
     "ClientAuthz": (7, "client_authz"), "ServerAuthz": (8, "server_authz"), "CertType": (9, "cert_type"), "SupportedGroups": (10, "supported_groups"),
     "EcPointFormats": (11, "ec_point_formats"), "Srp": (12, "srp"), "SignatureAlgorithms": (13, "signature_algorithms"), "UseSrtp": (14, "use_srtp"),
     "Heartbeat": (15, "heartbeat"), "ApplicationLayerProtocolNegotiation": (16, "application_layer_protocol_negotiation"), "StatusRequestv2": (17, "status_request_v2"),
     "SignedCertificateTimestamp": (18, "signed_certificate_timestamp"), "ClientCertificateType": (19, "client_certificate_type"), "ServerCertificateType": (20, "server_certificate_type"),
     "Padding": (21, "padding"), "EncryptThenMac": (22, "encrypt_then_mac"), "ExtendedMasterSecret": (23, "extended_master_secret"), "TokenBinding": (24, "token_binding"),
     "CachedInfo": (25, "cached_info"), "RecordSizeLimit": (28, "record_size_limit"), "SessionTicketTLS": (35, "session_ticket"), "KeyShareOld": (40, "key_share (drafts before 23)"),
     "PreSharedKey": (41, "pre_shared_key"), "EarlyData": (42, "early_data"), "SupportedVersions": (43, "supported_versions"), "Cookie": (44, "cookie"),
     "PskExchangeModes": (45, "psk_key_exchange_modes"), "TicketEarlyDataInfo": (46, "ticket_early_data_info (draft 18)"), "CertificateAuthorities": (47, "certificate_authorities"),
     "OidFilters": (48, "oid_filters"), "PostHandshakeAuth": (49, "post_handshake_auth"), "SigAlgorithmsCert": (50, "signature_algorithms_cert"), "KeyShare": (51, "key_share"),
     "NextProtocolNegotiation": (13172, "next_protocol_negotiation"), "Grease": (0xfafa, "GREASE (RFC 8701, one of 16)"), "RenegotiationInfo": (0xff01, "renegotiation_info"),
     "EncryptedServerName": (0xffce, "encrypted_server_name (draft-ietf-tls-esni)")},
 "tls_extensions::PskKeyExchangeMode": {"Psk": (0, "psk_ke"), "PskDhe": (1, "psk_dhe_ke")},
 "tls_extensions::SNIType": {"HostName": (0, "host_name")},
 "tls_extensions::CertificateStatusType": {"OCSP": (1, "ocsp")},
 "tls_ec::ECCurveType": {"ExplicitPrime": (1, "explicit_prime"), "ExplicitChar2": (2, "explicit_char2"), "NamedGroup": (3, "named_curve")},
 "tls_ec::NamedGroup": dict(
     list({n: (i + 1, n.lower()) for i, n in enumerate(["Sect163k1", "Sect163r1", "Sect163r2", "Sect193r1", "Sect193r2", "Sect233k1", "Sect233r1", "Sect239k1", "Sect283k1", "Sect283r1",
                                                         "Sect409k1", "Sect409r1", "Sect571k1", "Sect571r1", "Secp160k1", "Secp160r1", "Secp160r2", "Secp192k1", "Secp192r1", "Secp224k1",
                                                         "Secp224r1", "Secp256k1", "Secp256r1", "Secp384r1", "Secp521r1", "BrainpoolP256r1", "BrainpoolP384r1", "BrainpoolP512r1"])}.items())
     + [("EcdhX25519", (29, "x25519")), ("EcdhX448", (30, "x448")), ("BrainpoolP256r1tls13", (31, "brainpoolP256r1tls13")), ("BrainpoolP384r1tls13", (32, "brainpoolP384r1tls13")),
        ("BrainpoolP512r1tls13", (33, "brainpoolP512r1tls13")), ("Sm2", (41, "curveSM2")), ("Ffdhe2048", (256, "ffdhe2048")), ("Ffdhe3072", (257, "ffdhe3072")),
        ("Ffdhe4096", (258, "ffdhe4096")), ("Ffdhe6144", (259, "ffdhe6144")), ("Ffdhe8192", (260, "ffdhe8192")),
        ("ArbitraryExplicitPrimeCurves", (0xFF01, "arbitrary_explicit_prime_curves")), ("ArbitraryExplicitChar2Curves", (0xFF02, "arbitrary_explicit_char2_curves"))]),
 "tls_sign_hash::HashAlgorithm": {"None": (0, "none"), "Md5": (1, "md5"), "Sha1": (2, "sha1"), "Sha224": (3, "sha224"), "Sha256": (4, "sha256"), "Sha384": (5, "sha384"),
                                   "Sha512": (6, "sha512"), "Intrinsic": (8, "Intrinsic")},
 "tls_sign_hash::SignAlgorithm": {"Anonymous": (0, "anonymous"), "Rsa": (1, "rsa"), "Dsa": (2, "dsa"), "Ecdsa": (3, "ecdsa"), "Ed25519": (7, "ed25519"), "Ed448": (8, "ed448")},
 "tls_sign_hash::SignatureScheme": {"rsa_pkcs1_sha256": (0x0401, ""), "rsa_pkcs1_sha384": (0x0501, ""), "rsa_pkcs1_sha512": (0x0601, ""), "ecdsa_secp256r1_sha256": (0x0403, ""),
     "ecdsa_secp384r1_sha384": (0x0503, ""), "ecdsa_secp521r1_sha512": (0x0603, ""), "sm2sig_sm3": (0x0708, ""), "rsa_pss_rsae_sha256": (0x0804, ""), "rsa_pss_rsae_sha384": (0x0805, ""),
     "rsa_pss_rsae_sha512": (0x0806, ""), "ed25519": (0x0807, ""), "ed448": (0x0808, ""), "rsa_pss_pss_sha256": (0x0809, ""), "rsa_pss_pss_sha384": (0x080a, ""),
     "rsa_pss_pss_sha512": (0x080b, ""), "ecdsa_brainpoolP256r1tls13_sha256": (0x081a, ""), "ecdsa_brainpoolP384r1tls13_sha384": (0x081b, ""),
     "ecdsa_brainpoolP512r1tls13_sha512": (0x081c, ""), "rsa_pkcs1_sha1": (0x0201, ""), "ecdsa_sha1": (0x0203, "")},
 "certificate_transparency::CtVersion": {"V1": (0, "v1")},
}

# field size in bits stated by the curve name (RFC 4492 / 7027 / 8734): used by the key_bits rule
CURVE_BITS = {"Sect163k1": 163, "Sect163r1": 163, "Sect163r2": 163, "Sect193r1": 193, "Sect193r2": 193, "Sect233k1": 233, "Sect233r1": 233, "Sect239k1": 239,
              "Sect283k1": 283, "Sect283r1": 283, "Sect409k1": 409, "Sect409r1": 409, "Sect571k1": 571, "Sect571r1": 571, "Secp160k1": 160, "Secp160r1": 160, "Secp160r2": 160,
              "Secp192k1": 192, "Secp192r1": 192, "Secp224k1": 224, "Secp224r1": 224, "Secp256k1": 256, "Secp256r1": 256, "Secp384r1": 384, "Secp521r1": 521,
              "BrainpoolP256r1": 256, "BrainpoolP384r1": 384, "BrainpoolP512r1": 512, "BrainpoolP256r1tls13": 256, "BrainpoolP384r1tls13": 384, "BrainpoolP512r1tls13": 512}
# groups whose name states no bit size but for which the crate reports one: accepted values
CURVE_BITS_UNNAMED = {"EcdhX25519": 253}
# types whose Display prints constant names ("impl display" / "impl debug" newtype enums)

# registry types whose Debug output prints the constant names (newtype_enum! `impl debug`): the property's
# "Display/Debug text (for the types that print names)" - Debug of these must format through Display
DEBUG_PRINTS_NAMES = ["tls_record::TlsRecordType", "tls_handshake::TlsHandshakeType", "tls_handshake::TlsVersion", "tls_handshake::TlsHeartbeatMessageType",
                      "tls_handshake::TlsCompressionID", "tls_ec::NamedGroup", "tls_extensions::CertificateStatusType"]

# further IANA assignments the crate does not define today; used only if a constant with that name appears later
IANA_MORE = {
 "tls_extensions::TlsExtensionType": {"compress_certificate": 27, "delegated_credential": 34, "quic_transport_parameters": 57, "ticket_request": 58, "tls_lts": 26},
 "tls_handshake::TlsHandshakeType": {"supplemental_data": 23, "compressed_certificate": 25, "message_hash": 254},
 "tls_alert::TlsAlertDescription": {"no_application_protocol": 120, "ech_required": 121},
 "tls_sign_hash::SignatureScheme": {"ecdsa_brainpoolP256r1tls13_sha256": 0x081a},
 "tls_ec::NamedGroup": {"gc256a": 34, "x25519mlkem768": 4588, "secp256r1mlkem768": 4587},
}
