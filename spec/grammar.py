"""Reference wire grammars (the oracle of the parser-IR comparison).

Written by hand from RFC 5246 / 8446 / 6347 / 6066 / 5077 / 6962 / 4492 / 7919 / 6520 / 7301 / 7685 /
7366 / 7627 / 8449 / 8701 and the property statements (DESIGN.md Appendix D) - NOT derived from the
crate's source. Each function drives a pir.Builder and returns the value the parser must produce;
only public result types and their field names are referenced.

Conventions: integers big-endian, streaming unless stated; b.ld(w) = opaque<w>; b.within(n, g) =
grammar g confined to the next n bytes; G* = many0(complete(G)); G+ = many1(complete(G));
end?(G) = opt(complete(G)).
"""
import os, sys
sys.path.insert(0, os.path.dirname(os.path.dirname(os.path.abspath(__file__))))
from analysis.pir import *  # noqa

TR = "tls_record::"
TM = "tls_message::"
TH = "tls_handshake::"
TE = "tls_extensions::"
TA = "tls_alert::"
EC = "tls_ec::"
DH = "tls_dh::"
SH = "tls_sign_hash::"
CT = "certificate_transparency::"
DT = "dtls::"
MSG = TM + "TlsMessage::"
MH = TH + "TlsMessageHandshake::"
EXT = TE + "TlsExtension::"
DMH = DT + "DTLSMessageHandshakeBody::"
DMSG = DT + "DTLSMessage::"

MAX_RECORD_LEN = (1 << 14) + 256


def nt(path, x):
    return ctor(path, x)


def unwrap(x):
    """value of a newtype"""
    if x[0] == "ctor" and len(x[2]) == 1:
        return x[2][0]
    return x


def star(b, g):
    return b.many0(lambda nb: nb.complete(g))


def plus(b, g):
    return b.many1(lambda nb: nb.complete(g))


def endopt(b, g):
    return b.opt(lambda nb: nb.complete(g))


def opaque16_end(b):
    return endopt(b, lambda nb: nb.ld(16))


# ------------------------------------------------------------------ records (C02, C03, C16)
def record_header(b):
    t = b.u(8)
    v = b.u(16)
    ln = b.u(16)
    return struct(TR + "TlsRecordHeader", record_type=nt(TR + "TlsRecordType", t), version=nt(TH + "TlsVersion", v), len=ln)


def cap(b, ln):
    b.guard(lt(N(MAX_RECORD_LEN), ln), "TooLarge")


def raw_record(b):
    hdr = record_header(b)
    cap(b, fld(hdr, "len"))
    data = b.bytes(fld(hdr, "len"))
    return struct(TR + "TlsRawRecord", hdr=hdr, data=data)


def encrypted_record(b):
    hdr = record_header(b)
    cap(b, fld(hdr, "len"))
    blob = b.bytes(fld(hdr, "len"))
    return struct(TR + "TlsEncrypted", hdr=hdr, msg=struct(TR + "TlsEncryptedContent", blob=blob))


def ccs(b):
    x = b.u(8)
    b.guard(ne(x, N(1)))
    return unit(MSG + "ChangeCipherSpec")


def alert_body(b):
    sev = b.u(8)
    code = b.u(8)
    return struct(TA + "TlsMessageAlert", severity=nt(TA + "TlsAlertSeverity", sev), code=nt(TA + "TlsAlertDescription", code))


def alert(b):
    return ctor(MSG + "Alert", alert_body(b))


def appdata(b):
    blob = b.whole()
    return ctor(MSG + "ApplicationData", struct(TM + "TlsMessageApplicationData", blob=blob))


def heartbeat(b, record_len):
    t = b.u(8)
    pl = b.u(16)
    b.guard(lt(record_len, N(3)))
    payload = b.bytes(pl)
    return ["vec", [ctor(MSG + "Heartbeat", struct(TM + "TlsMessageHeartbeat", heartbeat_type=nt(TH + "TlsHeartbeatMessageType", t), payload_len=pl, payload=payload))]]


def record_content(b, hdr):
    rt = unwrap(fld(hdr, "record_type"))
    return b.switch(rt, [
        ([0x14], lambda nb: plus(nb, ccs)),
        ([0x15], lambda nb: plus(nb, alert)),
        ([0x16], lambda nb: plus(nb, handshake_message)),
        ([0x17], lambda nb: ["vec", [appdata(nb)]]),
        ([0x18], lambda nb: nb.complete(lambda n2: heartbeat(n2, fld(hdr, "len")))),
    ], lambda nb: nb.fail())


def record_content_standalone(b):
    return record_content(b, P("arg1"))


def plaintext_record(b):
    hdr = record_header(b)
    cap(b, fld(hdr, "len"))
    msg = b.within(fld(hdr, "len"), lambda nb: record_content(nb, hdr))
    return struct(TR + "TlsPlaintext", hdr=hdr, msg=msg)


def plaintext_records(b):
    return plus(b, plaintext_record)


# ------------------------------------------------------------------ handshake (C04)
def session_id(b):
    s = b.u(8)
    b.guard(lt(N(32), s))
    return b.cond(lt(N(0), s), lambda nb: nb.bytes(s))


def list16(b, n, elem_ctor):
    """n bytes of big-endian u16 elements; n = 0 -> empty; odd or overlong n rejected"""
    def nonempty(nb):
        nb.guard(lor(eq(op("%", n, N(2)), N(1)), lt(REMAINING, n)))
        r = nb.bytes(n, "X")
        return ["map_chunks2", r, ["lam", 1, ctor(elem_ctor, ["be16", ["lp", 0]])]]
    return b.ite(eq(n, N(0)), lambda nb: EMPTYVEC, nonempty)


def list8(b, n, elem_ctor):
    def nonempty(nb):
        nb.guard(lt(REMAINING, n))
        r = nb.bytes(n, "X")
        return ["map_each", r, ["lam", 1, ctor(elem_ctor, ["lp", 0])]]
    return b.ite(eq(n, N(0)), lambda nb: EMPTYVEC, nonempty)


def client_hello(b):
    v = b.u(16)
    random = b.bytes(N(32))
    sid = session_id(b)
    cl = b.u(16)
    ciphers = list16(b, cl, TH + "TlsCipherSuiteID")
    kl = b.u(8)
    comp = list8(b, kl, TH + "TlsCompressionID")
    ext = opaque16_end(b)
    return struct(TH + "TlsClientHelloContents", version=nt(TH + "TlsVersion", v), random=random, session_id=sid, ciphers=ciphers, comp=comp, ext=ext)


def server_hello(b, has_ext):
    v = b.u(16)
    random = b.bytes(N(32))
    sid = session_id(b)
    c = b.u(16)
    co = b.u(8)
    ext = opaque16_end(b) if has_ext else NONE
    return struct(TH + "TlsServerHelloContents", version=nt(TH + "TlsVersion", v), random=random, session_id=sid,
                  cipher=nt(TH + "TlsCipherSuiteID", c), compression=nt(TH + "TlsCompressionID", co), ext=ext)


def server_hello_contents(b):
    """parse_tls_handshake_server_hello: dispatch on the legacy version without consuming it"""
    v = b.peek(lambda nb: nb.u(16))
    return b.switch(v, [([0x0303], lambda nb: server_hello(nb, True)), ([0x0302], lambda nb: server_hello(nb, True)),
                        ([0x0301], lambda nb: server_hello(nb, True)), ([0x0300], lambda nb: server_hello(nb, False))],
                    lambda nb: nb.fail())


def server_hello_draft18(b):
    v = b.u(16)
    random = b.bytes(N(32))
    c = b.u(16)
    ext = opaque16_end(b)
    return ctor(MH + "ServerHelloV13Draft18", struct(TH + "TlsServerHelloV13Draft18Contents", version=nt(TH + "TlsVersion", v), random=random,
                                                      cipher=nt(TH + "TlsCipherSuiteID", c), ext=ext))


def server_hello_msg(b):
    v = b.peek(lambda nb: nb.u(16))
    sh = lambda e: (lambda nb: ctor(MH + "ServerHello", server_hello(nb, e)))
    return b.switch(v, [([0x7f12], server_hello_draft18), ([0x0303], sh(True)), ([0x0302], sh(True)), ([0x0301], sh(True)), ([0x0300], sh(False))],
                    lambda nb: nb.fail())


def new_session_ticket(b, n):
    b.guard(lt(n, N(4)))
    hint = b.u(32)
    ticket = b.bytes(op("-", n, N(4)))
    return ctor(MH + "NewSessionTicket", struct(TH + "TlsNewSessionTicketContent", ticket_lifetime_hint=hint, ticket=ticket))


def hello_retry_request(b):
    v = b.u(16)
    c = b.u(16)
    ext = opaque16_end(b)
    return ctor(MH + "HelloRetryRequest", struct(TH + "TlsHelloRetryRequestContents", version=nt(TH + "TlsVersion", v), cipher=nt(TH + "TlsCipherSuiteID", c), ext=ext))


def certificate(b):
    n = b.u(24)
    chain = b.within(n, lambda nb: star(nb, lambda n2: struct(TH + "RawCertificate", data=n2.ld(24))))
    return struct(TH + "TlsCertificateContents", cert_chain=chain)


def cert_request_full(b):
    cnt = b.u(8)
    types = b.count(cnt, lambda nb: nb.u(8))
    sl = b.u(16)
    sigs = b.within(sl, lambda nb: star(nb, lambda n2: n2.u(16)))
    cl = b.u(16)
    cas = b.within(cl, lambda nb: star(nb, lambda n2: n2.ld(16)))
    return struct(TH + "TlsCertificateRequestContents", cert_types=types, sig_hash_algs=some(sigs), unparsed_ca=cas)


def cert_request_legacy(b):
    cnt = b.u(8)
    types = b.count(cnt, lambda nb: nb.u(8))
    cl = b.u(16)
    cas = b.within(cl, lambda nb: star(nb, lambda n2: n2.ld(16)))
    return struct(TH + "TlsCertificateRequestContents", cert_types=types, sig_hash_algs=NONE, unparsed_ca=cas)


def cert_request(b):
    return b.alt([lambda nb: nb.complete(cert_request_full), lambda nb: nb.complete(cert_request_legacy)])


def cert_status(b):
    t = b.u(8)
    blob = b.ld(24)
    return struct(TH + "TlsCertificateStatusContents", status_type=t, blob=blob)


def next_protocol(b):
    sp = b.ld(8)
    pad = b.ld(8)
    return struct(TH + "TlsNextProtocolContent", selected_protocol=sp, padding=pad)


def handshake_body_arms(n):
    """handshake type -> body grammar (n = declared 24-bit length)"""
    return [
        ([0], lambda nb: unit(MH + "HelloRequest")),
        ([1], lambda nb: ctor(MH + "ClientHello", client_hello(nb))),
        ([2], server_hello_msg),
        ([4], lambda nb: new_session_ticket(nb, n)),
        ([5], lambda nb: unit(MH + "EndOfEarlyData")),
        ([6], hello_retry_request),
        ([11], lambda nb: ctor(MH + "Certificate", certificate(nb))),
        ([12], lambda nb: ctor(MH + "ServerKeyExchange", struct(TH + "TlsServerKeyExchangeContents", parameters=nb.bytes(n)))),
        ([13], lambda nb: ctor(MH + "CertificateRequest", cert_request(nb))),
        ([14], lambda nb: ctor(MH + "ServerDone", nb.bytes(n))),
        ([15], lambda nb: ctor(MH + "CertificateVerify", nb.bytes(n))),
        ([16], lambda nb: ctor(MH + "ClientKeyExchange", ctor(TH + "TlsClientKeyExchangeContents::Unknown", nb.bytes(n)))),
        ([20], lambda nb: ctor(MH + "Finished", nb.bytes(n))),
        ([22], lambda nb: ctor(MH + "CertificateStatus", cert_status(nb))),
        ([24], lambda nb: ctor(MH + "KeyUpdate", nb.u(8))),
        ([67], lambda nb: ctor(MH + "NextProtocol", next_protocol(nb))),
    ]


def handshake_message(b):
    t = b.u(8)
    n = b.u(24)
    raw = b.bytes(n)
    msg = b.sub(raw, lambda nb: nb.switch(t, handshake_body_arms(n), lambda n2: n2.fail()))
    return ctor(MSG + "Handshake", msg)


# ------------------------------------------------------------------ extensions (C05)
def sni_hostname(b):
    t = b.u(8)
    name = b.ld(16)
    return tup(nt(TE + "SNIType", t), name)


def ext_sni(b, L):
    def nonempty(nb):
        n = nb.u(16)
        v = nb.within(n, lambda n2: star(n2, sni_hostname))
        return ctor(EXT + "SNI", v)
    return b.ite(eq(REMAINING, N(0)), lambda nb: ctor(EXT + "SNI", EMPTYVEC), nonempty)


def ext_max_fragment_length(b, L):
    return ctor(EXT + "MaxFragmentLength", b.u(8))


def ext_status_request(b, L):
    def nonempty(nb):
        t = nb.u(8)
        req = nb.bytes(op("-", L, N(1)))
        return ctor(EXT + "StatusRequest", some(tup(nt(TE + "CertificateStatusType", t), req)))
    return b.switch(L, [([0], lambda nb: ctor(EXT + "StatusRequest", NONE))], nonempty)


def named_groups_whole(b):
    """the whole region is a list of big-endian u16 named groups"""
    n = REMAINING

    def nonempty(nb):
        nb.guard(lor(eq(op("%", n, N(2)), N(1)), lt(REMAINING, n)))
        r = nb.bytes(n, "X")
        return ["map_chunks2", r, ["lam", 1, ctor(EC + "NamedGroup", ["be16", ["lp", 0]])]]
    return b.ite(eq(n, N(0)), lambda nb: EMPTYVEC, nonempty)


def versions_whole(b):
    n = REMAINING

    def nonempty(nb):
        nb.guard(lor(eq(op("%", n, N(2)), N(1)), lt(REMAINING, n)))
        r = nb.bytes(n, "X")
        return ["map_chunks2", r, ["lam", 1, ctor(TH + "TlsVersion", ["be16", ["lp", 0]])]]
    return b.ite(eq(n, N(0)), lambda nb: EMPTYVEC, nonempty)


def ext_supported_groups(b, L):
    n = b.u(16)
    r = b.bytes(n)
    return b.sub(r, lambda nb: ctor(EXT + "EllipticCurves", named_groups_whole(nb)))


def ext_ec_point_formats(b, L):
    return ctor(EXT + "EcPointFormats", b.ld(8))


def ext_signature_algorithms(b, L):
    n = b.u(16)
    v = b.within(n, lambda nb: star(nb, lambda n2: n2.u(16)))
    return ctor(EXT + "SignatureAlgorithms", v)


def ext_heartbeat(b, L):
    return ctor(EXT + "Heartbeat", b.u(8))


def ext_alpn(b, L):
    n = b.u(16)
    v = b.within(n, lambda nb: star(nb, lambda n2: n2.ld(8)))
    return ctor(EXT + "ALPN", v)


def ext_sct(b, L):
    return ctor(EXT + "SignedCertificateTimestamp", opaque16_end(b))


def ext_opaque(variant):
    def g(b, L):
        return ctor(EXT + variant, b.bytes(L))
    return g


def ext_empty(variant):
    def g(b, L):
        b.guard(ne(L, N(0)))
        return unit(EXT + variant)
    return g


def ext_record_size_limit(b, L):
    return ctor(EXT + "RecordSizeLimit", b.u(16))


def ext_early_data(b, L):
    return ctor(EXT + "EarlyData", b.cond(lt(N(0), L), lambda nb: nb.u(32)))


def ext_supported_versions(b, L):
    def single(nb):
        return ctor(EXT + "SupportedVersions", ["vec", [nt(TH + "TlsVersion", nb.u(16))]])

    def lst(nb):
        nb.u(8)
        nb.guard(eq(L, N(0)))
        v = nb.within(op("-", L, N(1)), versions_whole)
        return ctor(EXT + "SupportedVersions", v)
    return b.ite(eq(L, N(2)), single, lst)


def ext_psk_modes(b, L):
    v = b.ld(8)
    return ctor(EXT + "PskExchangeModes", ["mcall", "alloc::slice::<impl [T]>::to_vec", [v]])


def oid_filter(b):
    oid = b.ld(8)
    val = b.ld(16)
    return struct(TE + "OidFilter", cert_ext_oid=oid, cert_ext_val=val)


def ext_oid_filters(b, L):
    n = b.u(16)
    v = b.within(n, lambda nb: star(nb, oid_filter))
    return ctor(EXT + "OidFilters", v)


def ext_renegotiation_info(b, L):
    return ctor(EXT + "RenegotiationInfo", b.ld(8))


def ext_esni(b, L):
    cs = b.u(16)
    g = b.u(16)
    ks = b.ld(16)
    rd = b.ld(16)
    es = b.ld(16)
    return ["struct", EXT + "EncryptedServerName", sorted([["ciphersuite", nt(TH + "TlsCipherSuiteID", cs)], ["group", nt(EC + "NamedGroup", g)],
                                                          ["key_share", ks], ["record_digest", rd], ["encrypted_sni", es]])]


# IANA extension type -> (content grammar, TlsExtension variant it builds)
EXT_CONTENT = {
    0: (ext_sni, "SNI"),
    1: (ext_max_fragment_length, "MaxFragmentLength"),
    5: (ext_status_request, "StatusRequest"),
    10: (ext_supported_groups, "EllipticCurves"),
    11: (ext_ec_point_formats, "EcPointFormats"),
    13: (ext_signature_algorithms, "SignatureAlgorithms"),
    15: (ext_heartbeat, "Heartbeat"),
    16: (ext_alpn, "ALPN"),
    18: (ext_sct, "SignedCertificateTimestamp"),
    21: (ext_opaque("Padding"), "Padding"),
    22: (ext_empty("EncryptThenMac"), "EncryptThenMac"),
    23: (ext_empty("ExtendedMasterSecret"), "ExtendedMasterSecret"),
    28: (ext_record_size_limit, "RecordSizeLimit"),
    35: (ext_opaque("SessionTicket"), "SessionTicket"),
    40: (ext_opaque("KeyShareOld"), "KeyShareOld"),
    41: (ext_opaque("PreSharedKey"), "PreSharedKey"),
    42: (ext_early_data, "EarlyData"),
    43: (ext_supported_versions, "SupportedVersions"),
    44: (ext_opaque("Cookie"), "Cookie"),
    45: (ext_psk_modes, "PskExchangeModes"),
    48: (ext_oid_filters, "OidFilters"),
    49: (ext_empty("PostHandshakeAuth"), "PostHandshakeAuth"),
    51: (ext_opaque("KeyShare"), "KeyShare"),
    13172: (ext_empty("NextProtocolNegotiation"), "NextProtocolNegotiation"),
    0xff01: (ext_renegotiation_info, "RenegotiationInfo"),
    0xffce: (ext_esni, "EncryptedServerName"),
}
GENERIC_TYPES = sorted(EXT_CONTENT)
CLIENT_TYPES = [t for t in GENERIC_TYPES if t != 40]
SERVER_TYPES = [0, 1, 5, 11, 13, 15, 16, 18, 22, 23, 28, 35, 41, 42, 43, 44, 51, 13172, 0xff01]
GREASE = [0x0A0A + 0x1010 * k for k in range(16)]


def is_grease_cond(t):
    """t in {0x0A0A, 0x1A1A, ..., 0xFAFA}: written as a predicate; compared via its truth table"""
    return land(eq(op("&", t, N(0x0f0f)), N(0x0a0a)), eq(op(">>", t, N(8)), op("&", t, N(0xff))))


def extension(types):
    def g(b):
        t = b.u(16)
        n = b.u(16)
        d = b.bytes(n)
        L = cast("u16", ["len", d])

        def known(nb):
            arms = [([ty], (lambda ty: (lambda n2: EXT_CONTENT[ty][0](n2, L)))(ty)) for ty in types]
            return nb.sub(d, lambda n2: n2.switch(t, arms, lambda n3: ctor(EXT + "Unknown", nt(TE + "TlsExtensionType", t), d)))
        return b.ite(is_grease_cond(t), lambda nb: ctor(EXT + "Grease", t, d), known)
    return g


def extension_list(types):
    return lambda b: star(b, extension(types))


def ext_unknown(b):
    t = b.u(16)
    d = b.ld(16)
    return ctor(EXT + "Unknown", nt(TE + "TlsExtensionType", t), d)


def tagged(ty, fixed_len=None):
    """single-purpose parser: tag(type), u16 length, content confined to the data"""
    def g(b):
        b.tag([ty >> 8, ty & 0xff])
        n = b.u(16)
        if fixed_len is not None:
            b.guard(ne(n, N(fixed_len)))
        d = b.bytes(n)
        return b.sub(d, lambda nb: EXT_CONTENT[ty][0](nb, n))
    return g


# ------------------------------------------------------------------ DTLS (C10)
def dtls_header(b):
    t = b.u(8)
    v = b.u(16)
    x = b.u(64)
    ln = b.u(16)
    return struct(DT + "DTLSRecordHeader", content_type=nt(TR + "TlsRecordType", t), version=nt(TH + "TlsVersion", v),
                  epoch=cast("u16", op(">>", x, N(48))), sequence_number=op("&", x, N((1 << 48) - 1)), length=ln)


def dtls_client_hello(b):
    v = b.u(16)
    random = b.bytes(N(32))
    sid = session_id(b)
    cookie = b.ld(8)
    cl = b.u(16)
    ciphers = list16(b, cl, TH + "TlsCipherSuiteID")
    kl = b.u(8)
    comp = list8(b, kl, TH + "TlsCompressionID")
    ext = opaque16_end(b)
    return ctor(DMH + "ClientHello", struct(DT + "DTLSClientHello", version=nt(TH + "TlsVersion", v), random=random, session_id=sid, cookie=cookie,
                                            ciphers=ciphers, comp=comp, ext=ext))


def dtls_hello_verify_request(b):
    v = b.u(16)
    cookie = b.ld(8)
    return ctor(DMH + "HelloVerifyRequest", struct(DT + "DTLSHelloVerifyRequest", server_version=nt(TH + "TlsVersion", v), cookie=cookie))


def dtls_handshake_message(b):
    t = b.u(8)
    length = b.u(24)
    seq = b.u(16)
    off = b.u(24)
    flen = b.u(24)
    raw = b.bytes(flen)
    is_fragment = lor(lt(N(0), off), lt(flen, length))

    def whole_body(nb):
        arms = [
            ([1], dtls_client_hello),
            ([3], dtls_hello_verify_request),
            ([2], lambda n2: ctor(DMH + "ServerHello", server_hello(n2, True))),
            ([14], lambda n2: ctor(DMH + "ServerDone", n2.bytes(length))),
            ([16], lambda n2: ctor(DMH + "ClientKeyExchange", ctor(TH + "TlsClientKeyExchangeContents::Unknown", n2.bytes(length)))),
            ([11], lambda n2: ctor(DMH + "Certificate", certificate(n2))),
        ]
        return nb.switch(t, arms, lambda n2: n2.fail())

    body = b.sub(raw, lambda nb: nb.ite(is_fragment, lambda n2: ctor(DMH + "Fragment", n2.whole()), whole_body))
    return ctor(DMSG + "Handshake", struct(DT + "DTLSMessageHandshake", msg_type=nt(TH + "TlsHandshakeType", t), length=length, message_seq=seq,
                                           fragment_offset=off, fragment_length=flen, body=body))


def dtls_ccs(b):
    x = b.u(8)
    b.guard(ne(x, N(1)))
    return unit(DMSG + "ChangeCipherSpec")


def dtls_alert(b):
    return ctor(DMSG + "Alert", alert_body(b))


def dtls_record_content(b, hdr):
    ct = unwrap(fld(hdr, "content_type"))
    return b.switch(ct, [([0x14], lambda nb: plus(nb, dtls_ccs)), ([0x15], lambda nb: plus(nb, dtls_alert)), ([0x16], lambda nb: plus(nb, dtls_handshake_message))],
                    lambda nb: nb.fail())


def dtls_record_content_standalone(b):
    return dtls_record_content(b, P("arg1"))


def dtls_record(b):
    hdr = dtls_header(b)
    cap(b, fld(hdr, "length"))
    msgs = b.within(fld(hdr, "length"), lambda nb: dtls_record_content(nb, hdr))
    return struct(DT + "DTLSPlaintext", header=hdr, messages=msgs)


def dtls_records(b):
    return plus(b, dtls_record)


# ------------------------------------------------------------------ key exchange, signatures (C13)
def dh_params(b):
    p = b.ld(16)
    g = b.ld(16)
    ys = b.ld(16)
    return struct(DH + "ServerDHParams", dh_p=p, dh_g=g, dh_ys=ys)


def ec_point(b):
    return struct(EC + "ECPoint", point=b.ld(8))


def explicit_prime(b):
    p = b.ld(8)
    a = b.ld(8)
    bb = b.ld(8)
    base = ec_point(b)
    order = b.ld(8)
    cof = b.ld(8)
    return struct(EC + "ExplicitPrimeContent", prime_p=p, curve=struct(EC + "ECCurve", a=a, b=bb), base=base, order=order, cofactor=cof)


def ec_parameters(b):
    ct = b.u(8)
    content = b.switch(ct, [([1], lambda nb: ctor(EC + "ECParametersContent::ExplicitPrime", explicit_prime(nb))),
                            ([3], lambda nb: ctor(EC + "ECParametersContent::NamedGroup", nt(EC + "NamedGroup", nb.u(16))))],
                       lambda nb: nb.fail())
    return struct(EC + "ECParameters", curve_type=nt(EC + "ECCurveType", ct), params_content=content)


def ecdh_params(b):
    cp = ec_parameters(b)
    pub = ec_point(b)
    return struct(EC + "ServerECDHParams", curve_params=cp, public=pub)


def digitally_signed(b):
    h = b.u(8)
    s = b.u(8)
    data = b.ld(16)
    return struct(SH + "DigitallySigned", alg=some(struct(SH + "SignatureAndHashAlgorithm", hash=nt(SH + "HashAlgorithm", h), sign=nt(SH + "SignAlgorithm", s))), data=data)


def digitally_signed_old(b):
    data = b.ld(16)
    return struct(SH + "DigitallySigned", alg=NONE, data=data)


def content_and_signature(b):
    def new(nb):
        c = nb.param_parser("arg1")
        return tup(c, digitally_signed(nb))

    def old(nb):
        c = nb.param_parser("arg1")
        return tup(c, digitally_signed_old(nb))
    return b.ite(P("arg2"), new, old)


# ------------------------------------------------------------------ certificate transparency (C14)
def sct_content(b):
    v = b.u(8)
    kid = b.bytes(N(32))
    ts = b.u(64)
    el = b.u(16)
    ext = b.bytes(el)
    sig = digitally_signed(b)
    return struct(CT + "SignedCertificateTimestamp", version=nt(CT + "CtVersion", v),
                  id=struct(CT + "CtLogID", key_id=["array", 32, kid]), timestamp=ts, extensions=ctor(CT + "CtExtensions", ext), signature=sig)


def sct(b):
    n = b.u(16)
    return b.within(n, sct_content)


def sct_list(b):
    n = b.u(16)
    return b.within(n, lambda nb: star(nb, sct))
