"""Reference protocol of the record defragmenter (C07), written from the property statement.
Every entry->exit path of each method must be one of these summaries and every summary must occur:
(guards, actions, exit). MAX = 10 MiB, comparison `>=` on the saturating sum."""
MAX = 10 * 1024 * 1024
TOO = "too_large[>=,%d,saturating_add]" % MAX
ERRS = ["Err(Error,other)", "Err(Failure,other)"]
COMPLETE = ["Err(Error,Complete)", "Err(Failure,Complete)"]

def nocopy():
    P = [(("in_progress",), (), "Failure(NonEmpty)")]
    base = ("!in_progress",)
    P.append((base + ("parse(data)=Ok",), ("Parse(data)",), "Pass(result)"))
    P.append((base + ("parse(data)=Incomplete",), ("Parse(data)",), "Pass(result)"))
    for c in COMPLETE:
        P.append((base + ("parse(data)=" + c,), ("Parse(data)",), "Incomplete"))
    for c in ERRS:
        P.append((base + ("parse(data)=" + c,), ("Parse(data)",), "Pass(result)"))
    return P

def parse_record():
    P = []
    first = ("!in_progress",)
    P.append((first + ("type in {Alert,ChangeCipherSpec}",), (), "Delegate(nocopy)"))
    f2 = first + ("!type in {Alert,ChangeCipherSpec}",)
    P.append((f2 + ("parse(data)=Ok",), ("Parse(data)",), "Ok(pass)"))
    buffering = ("Parse(data)", "SetType(Some(record.type))", "Clear", "Extend(record.data)")
    for c in ["Incomplete"] + COMPLETE:
        P.append((f2 + ("parse(data)=" + c,), buffering, "Incomplete"))
    for c in ERRS:
        P.append((f2 + ("parse(data)=" + c,), ("Parse(data)",), "Pass(result)"))
    cont = ("in_progress",)
    P.append((cont + ("type_mismatch",), (), "Error(Tag)"))
    c2 = cont + ("!type_mismatch",)
    P.append((c2 + (TOO,), (), "Error(TooLarge)"))
    c3 = c2 + ("!" + TOO,)
    pre = ("Extend(record.data)", "Parse(buf)")
    P.append((c3 + ("parse(buf)=Ok",), pre + ("SetType(None)",), "Ok(pass)"))
    for c in COMPLETE:
        P.append((c3 + ("parse(buf)=" + c,), pre, "Incomplete"))
    for c in ["Incomplete"] + ERRS:
        P.append((c3 + ("parse(buf)=" + c,), pre, "Pass(result)"))
    return P

def reset():
    return [((), ("ResetDefault",), "Value(())")]

def defrag_in_progress():
    return [((), (), "Value(current_record_type.is_some())")]

METHODS = {"parse_record_nocopy": nocopy, "parse_record": parse_record, "reset": reset, "defrag_in_progress": defrag_in_progress}
