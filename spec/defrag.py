"""Reference protocol of the record defragmenter (C07), written from the property statement.

Every entry->exit path of each method, as a semantic summary
    (decisions taken in order, parser invocations in order, final current_record_type, final buffer, exit)
over the symbolic inputs of analysis/defrag_sem.py:
    state   : current type T0 (None, or Some(CUR) when defragmentation is in progress), buffer B0
    record  : type RT, data D
    final type   "none" | ("some","CUR") (unchanged, in progress) | ("some","RT")
    final buffer tuple of parts: ("B0",) unchanged, ("D",) replaced by the record, ("B0","D") appended, () emptied
    exit    "Pass(result)" the one-shot parser's result unchanged, "Incomplete", "Error(K)", "Failure(K)", "Value(..)"
The set of summaries the code yields must equal this set.  MAX = 10 MiB, refused with `>=` on a sum that cannot wrap."""
MAX = 10 * 1024 * 1024
TOO = "too_large[>=,%d]" % MAX
ERRS = ["Err(Error,other)", "Err(Failure,other)"]
COMPLETE = ["Err(Error,Complete)", "Err(Failure,Complete)"]
IDLE, BUSY = "none", ("some", "CUR")
SAME = ("B0",)


def _oneshot(prefix):
    """zero-copy attempt on the caller's record: Complete is reported as Incomplete, everything else passes; state untouched"""
    P = []
    for oc in ["Ok", "Incomplete"] + ERRS:
        P.append((prefix + ("parse(data)=" + oc,), ("Parse(data)",), IDLE, SAME, "Pass(result)"))
    for oc in COMPLETE:
        P.append((prefix + ("parse(data)=" + oc,), ("Parse(data)",), IDLE, SAME, "Incomplete"))
    return P


def nocopy():
    return [(("in_progress",), (), BUSY, SAME, "Failure(NonEmpty)")] + _oneshot(("!in_progress",))


def parse_record():
    P = []
    unfrag = "type in {Alert,ChangeCipherSpec}"
    # first record of a message: Alert / ChangeCipherSpec cannot be fragmented (same as parse_record_nocopy)
    P += _oneshot(("!in_progress", unfrag))
    f2 = ("!in_progress", "!" + unfrag)
    for oc in ["Ok"] + ERRS:
        P.append((f2 + ("parse(data)=" + oc,), ("Parse(data)",), IDLE, SAME, "Pass(result)"))
    # a fragment: remember the type, replace the buffer by this record's data
    for oc in ["Incomplete"] + COMPLETE:
        P.append((f2 + ("parse(data)=" + oc,), ("Parse(data)",), ("some", "RT"), ("D",), "Incomplete"))
    # continuation
    P.append((("in_progress", "type_mismatch"), (), BUSY, SAME, "Error(Tag)"))
    c2 = ("in_progress", "!type_mismatch")
    P.append((c2 + (TOO,), (), BUSY, SAME, "Error(TooLarge)"))
    c3 = c2 + ("!" + TOO,)
    P.append((c3 + ("parse(buf)=Ok",), ("Parse(buf)",), IDLE, ("B0", "D"), "Pass(result)"))
    for oc in COMPLETE:
        P.append((c3 + ("parse(buf)=" + oc,), ("Parse(buf)",), BUSY, ("B0", "D"), "Incomplete"))
    for oc in ["Incomplete"] + ERRS:
        P.append((c3 + ("parse(buf)=" + oc,), ("Parse(buf)",), BUSY, ("B0", "D"), "Pass(result)"))
    return P


def reset():
    return [((), (), IDLE, (), "Value(())")]


def defrag_in_progress():
    return [(("in_progress",), (), BUSY, SAME, "Value(true)"), (("!in_progress",), (), IDLE, SAME, "Value(false)")]


METHODS = {"parse_record_nocopy": nocopy, "parse_record": parse_record, "reset": reset, "defrag_in_progress": defrag_in_progress}
