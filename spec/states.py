"""Reference transition relation for C08, written from the property statement and RFC 5246/8446
message flows (DESIGN.md Appendix A) - not derived from src/tls_states.rs.

Abstract message kinds: the 17 handshake variants (ClientHello split by session-id presence),
ChangeCipherSpec, Alert(warning) / Alert(other), ApplicationData, Heartbeat.
Direction: True = to_server (sent by the client), False = sent by the server.
"""
STATES = ["None", "ClientHello", "AskResumeSession", "ResumeSession", "ServerHello", "Certificate", "CertificateSt",
          "ServerKeyExchange", "ServerHelloDone", "ClientKeyExchange", "ClientChangeCipherSpec", "CRCertRequest",
          "CRHelloDone", "CRCert", "CRClientKeyExchange", "CRCertVerify", "NoCertSKE", "NoCertHelloDone", "NoCertCKE",
          "PskHelloDone", "PskCKE", "SessionEncrypted", "Alert", "Finished", "Invalid"]

HANDSHAKE_VARIANTS = ["HelloRequest", "ClientHello", "ServerHello", "ServerHelloV13Draft18", "NewSessionTicket",
                      "EndOfEarlyData", "HelloRetryRequest", "Certificate", "ServerKeyExchange", "CertificateRequest",
                      "ServerDone", "CertificateVerify", "ClientKeyExchange", "Finished", "CertificateStatus",
                      "NextProtocol", "KeyUpdate"]

C, S = True, False

# (state, handshake kind, direction) -> new state            (rule 2 of Appendix A)
HS_ROWS = {
    ("None", "ClientHello-sid", C): "ClientHello",
    ("None", "ClientHello+sid", C): "AskResumeSession",
    ("ClientHello", "ServerHello", S): "ServerHello",
    ("ServerHello", "Certificate", S): "Certificate",
    ("Certificate", "CertificateStatus", S): "CertificateSt",
    ("Certificate", "ServerKeyExchange", S): "ServerKeyExchange",
    ("CertificateSt", "ServerKeyExchange", S): "ServerKeyExchange",
    ("ServerKeyExchange", "ServerDone", S): "ServerHelloDone",
    ("ServerHelloDone", "ClientKeyExchange", C): "ClientKeyExchange",
    ("Certificate", "CertificateRequest", S): "CRCertRequest",
    ("ServerKeyExchange", "CertificateRequest", S): "CRCertRequest",
    ("CRCertRequest", "ServerDone", S): "CRHelloDone",
    ("CRHelloDone", "Certificate", C): "CRCert",
    ("CRCert", "ClientKeyExchange", C): "CRClientKeyExchange",
    ("CRClientKeyExchange", "CertificateVerify", C): "CRCertVerify",
    ("ServerHello", "ServerKeyExchange", S): "NoCertSKE",
    ("NoCertSKE", "ServerDone", S): "NoCertHelloDone",
    ("NoCertHelloDone", "ClientKeyExchange", C): "NoCertCKE",
    ("Certificate", "ServerDone", S): "PskHelloDone",
    ("PskHelloDone", "ClientKeyExchange", C): "PskCKE",
    ("AskResumeSession", "ServerHello", S): "ResumeSession",
    ("ResumeSession", "Certificate", S): "Certificate",
    ("ClientHello", "ServerHelloV13Draft18", S): "ClientChangeCipherSpec",
    ("ClientChangeCipherSpec", "NewSessionTicket", S): "ClientChangeCipherSpec",
}

# ChangeCipherSpec rows (rule 4): state -> {direction: new state}
CCS_ROWS = {
    "ClientKeyExchange": {C: "ClientChangeCipherSpec", S: "ClientChangeCipherSpec"},
    "CRClientKeyExchange": {C: "ClientChangeCipherSpec", S: "ClientChangeCipherSpec"},
    "CRCertVerify": {C: "ClientChangeCipherSpec", S: "ClientChangeCipherSpec"},
    "NoCertCKE": {C: "ClientChangeCipherSpec", S: "ClientChangeCipherSpec"},
    "PskCKE": {C: "ClientChangeCipherSpec", S: "ClientChangeCipherSpec"},
    "ResumeSession": {C: "ClientChangeCipherSpec", S: "ClientChangeCipherSpec"},
    "ClientChangeCipherSpec": {S: "SessionEncrypted"},
    "AskResumeSession": {C: "AskResumeSession"},
}

ERR = ("Err", "InvalidTransition")


def kinds():
    ks = []
    for v in HANDSHAKE_VARIANTS:
        if v == "ClientHello":
            ks += ["hs:ClientHello+sid", "hs:ClientHello-sid"]
        else:
            ks.append("hs:" + v)
    ks += ["ccs", "alert:warning", "alert:other", "appdata", "heartbeat"]
    return ks


def expected(state, kind, to_server):
    """-> ("Ok", state) | ("Err", "InvalidTransition")"""
    if state == "Invalid":
        return ("Ok", "Invalid")
    if state == "SessionEncrypted":
        return ("Ok", "SessionEncrypted")
    if state == "Finished":
        return ("Ok", "Invalid")
    if kind.startswith("hs:"):
        h = kind[3:]
        if h == "HelloRequest":
            return ERR if state == "None" else ("Ok", state)
        new = HS_ROWS.get((state, h, to_server))
        return ("Ok", new) if new else ERR
    if kind == "ccs":
        new = CCS_ROWS.get(state, {}).get(to_server)
        return ("Ok", new) if new else ERR
    if kind == "alert:warning":
        return ("Ok", state)
    if kind == "alert:other":
        return ("Ok", "Finished")
    return ERR
