"""Reference writers (C09), from RFC 5246 sec. 4 (presentation language), 7.4.1.2/7.4.1.3, RFC 8446 draft-18
ServerHello, RFC 6066 (SNI, max_fragment_length), RFC 8422 (supported_groups) and the property statement.
Same step language as analysis/gir.py; values are named through the public fields of the message types."""
import os, sys
sys.path.insert(0, os.path.dirname(os.path.dirname(os.path.abspath(__file__))))
from analysis.pir import P, N, fld, canon

OPT = "core::option::Option::"
MH = "tls_handshake::TlsMessageHandshake::"
MSG = "tls_message::TlsMessage::"
EXT = "tls_extensions::TlsExtension::"
CKE = "tls_handshake::TlsClientKeyExchangeContents::"


def u(bits, v):
    return ["emit", bits, "be", v]


def lenv(x, ty):
    return ["cast", ty, ["len", x]]


def payload(label, i=0):
    return ["payload", label, i]


def opaque_opt(x, bits):
    """Option<&[u8]> written as opaque<bits>: None -> zero length"""
    ty = "u%d" % bits
    some = [u(bits, lenv(payload(OPT + "Some"), ty)), ["bytes", payload(OPT + "Some")]]
    none = [u(bits, N(0))]
    return some, none


def session_id(x):
    some, none = opaque_opt(x, 8)
    return [["switch", x, [[OPT + "None", none], [OPT + "Some", some]], None]]


def extensions_block(x):
    some, none = opaque_opt(x, 16)
    return [["switch", x, [[OPT + "Some", some], [OPT + "None", none]], None]]


def client_hello(m):
    body = [u(16, fld(fld(m, "version"), "0")), ["bytes", fld(m, "random")]] + session_id(fld(m, "session_id")) + [
        u(16, canon(["op", "*", lenv(fld(m, "ciphers"), "u16"), N(2)])), ["repeat", fld(m, "ciphers"), [u(16, fld(["elem"], "0"))]],
        u(8, lenv(fld(m, "comp"), "u8")), ["repeat", fld(m, "comp"), [u(8, fld(["elem"], "0"))]]] + extensions_block(fld(m, "ext"))
    return [u(8, N(1)), ["lenp", 24, body]]


def server_hello(m):
    body = [u(16, fld(fld(m, "version"), "0")), ["bytes", fld(m, "random")]] + session_id(fld(m, "session_id")) + [
        u(16, fld(fld(m, "cipher"), "0")), u(8, fld(fld(m, "compression"), "0"))] + extensions_block(fld(m, "ext"))
    return [u(8, N(2)), ["lenp", 24, body]]


def server_hello_draft18(m):
    body = [u(16, fld(fld(m, "version"), "0")), ["bytes", fld(m, "random")], u(16, fld(fld(m, "cipher"), "0"))] + extensions_block(fld(m, "ext"))
    return [u(8, N(2)), ["lenp", 24, body]]


def client_key_exchange(m):
    return [["switch", m, [
        [CKE + "Unknown", [u(8, N(16)), ["lenp", 24, [["bytes", payload(CKE + "Unknown")]]]]],
        [CKE + "Dh", [u(8, N(16)), ["lenp", 24, [["lenp", 16, [["bytes", payload(CKE + "Dh")]]]]]]],
        [CKE + "Ecdh", [u(8, N(16)), ["lenp", 24, [u(8, lenv(fld(payload(CKE + "Ecdh"), "point"), "u8")), ["bytes", fld(payload(CKE + "Ecdh"), "point")]]]]],
    ], None]]


def finished(m):
    return [u(8, N(20)), ["lenp", 24, [["bytes", m]]]]


def hello_request():
    return [u(8, N(0)), u(24, N(0))]


def change_cipher_spec():
    return [u(8, N(1))]


def handshake(m):
    return [["switch", m, [
        [MH + "HelloRequest", hello_request()],
        [MH + "ClientHello", client_hello(payload(MH + "ClientHello"))],
        [MH + "ServerHello", server_hello(payload(MH + "ServerHello"))],
        [MH + "ServerHelloV13Draft18", server_hello_draft18(payload(MH + "ServerHelloV13Draft18"))],
        [MH + "ClientKeyExchange", client_key_exchange(payload(MH + "ClientKeyExchange"))],
        [MH + "Finished", finished(payload(MH + "Finished"))],
    ], [["nyi"]]]]


def message(m):
    return [["switch", m, [[MSG + "Handshake", handshake(payload(MSG + "Handshake"))], [MSG + "ChangeCipherSpec", change_cipher_spec()]], [["nyi"]]]]


def plaintext(p):
    return [u(8, fld(fld(fld(p, "hdr"), "record_type"), "0")), u(16, fld(fld(fld(p, "hdr"), "version"), "0")), ["lenp", 16, [["repeat", fld(p, "msg"), message(["elem"])]]]]


def extension(m):
    sni = [u(16, N(0)), ["lenp", 16, [["lenp", 16, [["repeat", payload(EXT + "SNI"), [u(8, fld(fld(["elem"], "0"), "0")), u(16, lenv(fld(["elem"], "1"), "u16")), ["bytes", fld(["elem"], "1")]]]]]]]]
    mfl = [u(16, N(1)), ["lenp", 16, [u(8, payload(EXT + "MaxFragmentLength"))]]]
    groups = [u(16, N(10)), ["lenp", 16, [["lenp", 16, [["repeat", payload(EXT + "EllipticCurves"), [u(16, fld(["elem"], "0"))]]]]]]]
    return [["switch", m, [[EXT + "SNI", sni], [EXT + "MaxFragmentLength", mfl], [EXT + "EllipticCurves", groups]], [["nyi"]]]]


def extensions(m):
    return [["lenp", 16, [["repeat", m, extension(["elem"])]]]]


A0 = P("a0")
# serializer function -> reference writer
WRITERS = {
    "tls_serialize::gen_tls_clienthello": client_hello(A0),
    "tls_serialize::gen_tls_serverhello": server_hello(A0),
    "tls_serialize::gen_tls_serverhellodraft18": server_hello_draft18(A0),
    "tls_serialize::gen_tls_clientkeyexchange": client_key_exchange(A0),
    "tls_serialize::gen_tls_finished": finished(A0),
    "tls_serialize::gen_tls_hellorequest": hello_request(),
    "tls_serialize::gen_tls_changecipherspec": change_cipher_spec(),
    "tls_serialize::gen_tls_message": message(A0),
    "tls_serialize::gen_tls_plaintext": plaintext(A0),
    "tls_serialize::gen_tls_extension": extension(A0),
    "tls_serialize::gen_tls_extensions": extensions(A0),
}
# message variant -> handshake type the parser must dispatch on for the emitted type byte
HS_TYPE_OF = {"HelloRequest": 0, "ClientHello": 1, "ServerHello": 2, "ServerHelloV13Draft18": 2, "ClientKeyExchange": 16, "Finished": 20}
EXT_TYPE_OF = {"SNI": 0, "MaxFragmentLength": 1, "EllipticCurves": 10}
# documented wire-limit preconditions for truncating casts (property statement)
LIMITS = "session id <= 32 bytes, <= 32767 cipher suites, <= 255 compression methods, extension block <= 65535 bytes, random of 32 bytes"
