#!/usr/bin/env python3
"""Assemble DESIGN.md from its parts (docs/design/*.md) and the seeded-change matrix."""
import glob, json, os
V = os.path.dirname(os.path.dirname(os.path.abspath(__file__)))
D = os.path.join(V, "docs", "design")
def rd(n):
    return open(os.path.join(D, n)).read()
rows = []
matrix = {}
mp = os.path.join(V, "seeded", "MATRIX.json")
if os.path.exists(mp):
    matrix = json.load(open(mp))
for d in sorted(glob.glob(os.path.join(V, "seeded", "C*-*"))):
    name = os.path.basename(d)
    m = json.load(open(os.path.join(d, "meta.json")))
    own = name.split("-")[0]
    res = matrix.get(name, {})
    caught_by = [p for p, v in sorted(res.items()) if not p.endswith("_keys") and v == "caught"]
    keys = res.get(own + "_keys", [])
    rules = sorted(set(k.split("/")[1] for k in keys if "/" in k))
    summ = m.get("summary", "").replace("\n", " ").replace("|", "/")
    if len(summ) > 230:
        summ = summ[:227] + "..."
    need = m.get("needs_to_manifest", "").replace("\n", " ").replace("|", "/")
    if len(need) > 150:
        need = need[:147] + "..."
    rows.append("| %s | %s | %s | %s | %s |" % (name, summ, need, ", ".join(rules) or "(see MATRIX.json)", ", ".join(caught_by) or own))
sec8 = """--------------------------------------------------------------------------

## 8. Seeded changes, and which checks catch them

@N@ changes were produced by fresh sub-agents that were given only the text of one
property and a scratch worktree of /repo (nothing from /verif), in five rounds of
two changes per property (round 2 was told the summaries of round 1 and asked for
harder, different mechanisms; round 3 was told all four earlier summaries and asked
to look away from the obvious function: shared helpers, type definitions, derive
attributes, constants, iterator chains, match-arm order, build.rs, Cargo.toml, the
data file; round 4 (-g, -h) was asked for slips disguised as honest refactorings, two
cooperating sites, one build configuration, less-used entry points; round 5 (-i, -j), run
after the canonical forms had been widened for the refactoring corpus of section 8.2, was asked
to write every change as an idiomatic clean-up in exactly the constructs those canonical forms
accept - Option/Result combinators, early returns, re-measured lengths, `Parser` method chains,
`value`/`cond`/`iterator`, const tables with `contains`/`find` or indexed by `enum as usize`,
ranges, reversed `From`/`TryFrom` delegation, shared helpers, hand-expanded macros - with one
boundary, row or arm off). Each was confirmed by `tools/confirm_mutant.py` in a scratch worktree:
the three configurations compile and the existing tests pass (default and
serialize) with the change; its demonstration test fails with the change and passes
without it. None is applied to /repo. To run the checks against one:
`git -C /repo apply seeded/<id>/patch.diff; ./check <Cnn>; git -C /repo checkout -- .`
(or `tools/try_mutant.py <id>` in a scratch worktree).

Result: **every one of the @N@ is reported by the check of the property it breaks.**
Fourteen were missed (or would have been, and were predicted before running) by the
check of their own property at first and led to stronger rules - in no case was a
rule loosened:
* C07-c (a guard moved before the reads in the shared heartbeat parser): C07 now also
  requires that nothing but a streaming read can fail first in a fragmentable arm
  (FRAGMENT-SIGNAL).
* C11-c (an unregistered extension type captured by a dispatch arm): dispatched types
  must be IANA-known. C11-d (two swapped u16 fields, both unconstrained): the field
  must be fed by the *same wire element* as in the reference grammar. C11-f (a guarded
  match arm the evaluator could not read made the check exit 2): guarded catch-all
  arms are now evaluated and unreadable constructs are reported as violations.
* C15-c (build.rs dropping the first registry row) and C15-f (an id renumbered in the
  data file, consistently in registry and txt): C15 now checks the registry against
  the txt and the IANA snapshot.
* C17-c (zero padding moved into LowerHex): plain format template required. C17-d
  (Debug no longer printing names): list of types whose Debug prints names. C17-e (a
  new constant with a transposed value shadowing SupportedVersions in the name
  table): UNIQUE-VALUES.
* C09-e / C09-f (parser-side changes that only break the round trip): READER-GRAMMAR.
* C03-b was missed for a moment after the projections were introduced (the Failure was
  inside a cut region): NO-FAILURE over the whole payload grammar.
* C06-g (the `map_parser(take(len), ..)` wrapper removed from the stand-alone extension
  parsers, one of whose helpers does not bound itself): the 16 tag parsers joined the
  locality table. C06-h (every record copied into the internal buffer first): new rule
  DEFRAG-NOCOPY on the defragmenter's path summaries.
* C01-h made the old path engine crash (exit 2): analysis errors after extraction are now
  violations, and the defragmenter is read by the semantic interpreter.
* C11-f and C11-h were caught only by a brittle shape rule; when C11 was made to follow
  every branch they were missed until the `/no-overlap` rule (same bytes read by a
  structure-deciding element of an earlier alternative / a re-read) was added, which
  reports them for the reason they are wrong.
* C06-j (a DTLS fragment returned with `return map(parse_dtls_fragment, wrap)(raw_msg)`, so the
  caller gets what was left of the *region*): REMAINDER-SUFFIX now reports a parser applied to a
  region whose result is returned as it is. C11-j (the DTLS ServerHello routed through the TLS
  entry point, which peeks the version and rejects what is not in its table): C11 had no row for
  the code points inside DTLS handshake messages - seven rows added, anchored at the exported
  dispatcher - and a test on a *peeked* value now counts as a test on the bytes the peek read
  (`/no-overlap`), which is how the version is constrained there.
* C11-a (the certificate-status type read only when `ext_len > 1` instead of `> 0`) had been
  caught by the shape of its accessor; once `if n == 0 {None} else {Some(p)}` and `cond(n > 0, p)`
  became one canonical form (section 3.1) the mutant and the reference had the same shape and the
  mutant was missed by its own check - found by re-running the own-check matrix after the change.
  C11 now compares, for every code point, the *conditions under which it is read at all* with the
  reference grammar's, which is what the mutant actually changes.

The column "caught by" lists every property check that reports the change (from
`seeded/MATRIX.json`, all 18 checks run against every change); "rules" are the rules
of the change's own property that fire.

| change | what was changed | needs to manifest | rules (own property) | caught by |
|---|---|---|---|---|
""" + "\n".join(rows) + "\n\n"
rrows = []
for d in sorted(glob.glob(os.path.join(V, "refactors", "C*-*"))):
    name = os.path.basename(d)
    m = json.load(open(os.path.join(d, "meta.json")))
    summ = m.get("summary", "").replace("\n", " ").replace("|", "/")
    if len(summ) > 260:
        summ = summ[:257] + "..."
    chk = m.get("checks", {})
    alarms = sorted(p for p, v in chk.items() if v.get("rc") != 0)
    first = m.get("first_alarms")
    rrows.append("| %s | %s | %s | %s |" % (name, summ, ", ".join(first) if first else ("none" if first == [] else "?"), ", ".join(alarms) or "none"))
sec8 += """### 8.2 Behaviour-preserving refactorings, and which checks stay silent

The other direction: @R@ refactorings were produced by fresh sub-agents that were given
only the text of one property and a scratch worktree, and asked to restructure the code
the property is anchored in *without changing any observable behaviour* (with an
equivalence argument and a demonstration test that passes on both trees). Each was
confirmed by `tools/try_refactor.py`: three configurations compile, the existing tests
pass, the demonstration passes with and without the patch; then all 18 checks were run
against the patched worktree. "alarms when first tried" is what the checks said before
the machinery was strengthened (each of those was a false alarm of the checker, fixed by
a canonical form or a more semantic rule - section 3 - never by a suppression);
"alarms now" is `tools/rf_all.sh` on the current machinery.

| refactoring | what was restructured | alarms when first tried | alarms now |
|---|---|---|---|
""" + "\n".join(rrows) + "\n\n"
sec8 = sec8.replace("@N@", str(len(rows))).replace("@R@", str(len(rrows)))
sec9 = """--------------------------------------------------------------------------

## 9. Interface (MANIFEST.json)

* `setup_cmd`: `cd driver && cargo +nightly build --release --offline` (the only built
  artefact; nothing a registered command needs is kept under /tmp - scratch
  directories are created per run and removed).
* per property: `quick_cmd` = `./check <id> --tier quick`, `thorough_cmd` =
  `./check <id> --tier thorough`, `replay_cmd_template` = `./check <id> --explain {path}`
  (prints the recorded violation and re-evaluates the property on the current tree),
  `evidence_file` = `evidence/<id>.json`, level `other`.
* exit codes: 0 held; 1 with `VIOLATION property=<id> replay=<path>` lines; 2 could
  not analyse (crate does not compile in a required configuration, driver missing,
  internal error) - never a pass; 3 `CHECKER-SELFTEST-FAILED` (thorough tier).
* `VERIF_SEED` is recorded but unused (nothing is random); `VERIF_TIER` is honoured
  when `--tier` is absent; `TLSVERIF_EVID` redirects evidence (used when running
  checks against seeded changes so that committed evidence always comes from /repo).
* `MANIFEST.json` is generated by `tools/gen_manifest.py`; `DESIGN.md` by
  `tools/gen_design.py` from `docs/design/*.md` and `seeded/MATRIX.json`.

"""
out = rd("00-head.md") + rd("01-read.md") + rd("02-mid.md") + rd("06-tail.md") + sec8 + sec9 + rd("A-states.md") + rd("B-callees.md") + rd("D-grammars.md")
open(os.path.join(V, "DESIGN.md"), "w").write(out)
print("DESIGN.md", len(out), "bytes,", len(rows), "seeded rows")
