#!/bin/bash
# confirm round-2 mutants (variants c,d) produced under /tmp/mut2
for id in "$@"; do
  ( for v in c d; do d=/tmp/mut2/out/$id-$v; [ -f $d/patch.diff ] && [ ! -d /verif/seeded/$id-$v ] && /verif/tools/confirm_mutant.py $d /tmp/mut2/$id > /tmp/mut2/out/$id-$v.confirm.log 2>&1; done ) &
done
wait
tail -qn1 /tmp/mut2/out/*.confirm.log
