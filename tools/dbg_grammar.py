#!/usr/bin/env python3
"""debug: print code and reference grammar of one function.  dbg_grammar.py <repo> <fn path> [prop]"""
import sys, json
sys.path.insert(0, "/verif")
from analysis.gcommon import load
from analysis.grammar_check import compare
from analysis.grammar_props import TABLE, PROJECTION
repo, path = sys.argv[1], sys.argv[2]
prop = sys.argv[3] if len(sys.argv) > 3 else None
F = load(repo)
spec = [s for p, s, _ in TABLE if p == path][0]
r = compare(F, path, spec, project=PROJECTION.get((prop, path)) if prop else None)
def show(sq, ind=0):
    pad = "  " * ind
    for st in sq["steps"]:
        head = [x for x in st if not isinstance(x, dict) and not (isinstance(x, list) and x and isinstance(x[0], (dict, list)) and any(isinstance(y, dict) or (isinstance(y, list) and len(y) == 2 and isinstance(y[1], dict)) for y in x))]
        print(pad + json.dumps(head)[:230])
        for x in st:
            if isinstance(x, dict):
                show(x, ind + 1)
            elif isinstance(x, list):
                for y in x:
                    if isinstance(y, dict):
                        show(y, ind + 1)
                    elif isinstance(y, list) and len(y) == 2 and isinstance(y[1], dict):
                        print(pad + "  case %s:" % y[0]); show(y[1], ind + 2)
    print(pad + "ret " + json.dumps(sq["ret"])[:230])
print("ok:", r.get("ok"), "diff:", str(r.get("diff"))[:400])
if "code" in r:
    print("---- code"); show(r["code"]); print("---- spec"); show(r["spec"])
