#!/bin/bash
# confirm round-4 mutants (variants g,h) produced under /tmp/mut4
for id in "$@"; do
  ( for v in g h; do d=/tmp/mut4/out/$id-$v; [ -f $d/patch.diff ] && [ ! -d /verif/seeded/$id-$v ] && /verif/tools/confirm_mutant.py $d /tmp/mut4/$id > /tmp/mut4/out/$id-$v.confirm.log 2>&1; done ) &
done
wait
for id in "$@"; do tail -qn1 /tmp/mut4/out/$id-*.confirm.log; done
