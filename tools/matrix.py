#!/usr/bin/env python3
"""Run every check against every seeded change (in scratch worktrees, 1 per property id, in parallel) and
write /verif/seeded/MATRIX.json: {mutant: {property: "caught"|"silent"|"error"}}."""
import json, os, subprocess, sys
from concurrent.futures import ThreadPoolExecutor
PROPS = ["C%02d" % i for i in range(1, 19)]
only_own = "--own" in sys.argv
names = sorted(d for d in os.listdir("/verif/seeded") if os.path.isdir("/verif/seeded/" + d))
groups = {}
for n in names:
    groups.setdefault(n.split("-")[0], []).append(n)

def run_group(pid):
    wt = "/tmp/mut/%s" % pid
    if not os.path.isdir(wt):
        subprocess.check_call(["git", "-C", "/repo", "worktree", "add", "-q", "--detach", wt, "HEAD"])
    out = {}
    for n in groups[pid]:
        subprocess.check_call("git checkout -q -- . && git clean -fdq -e target", shell=True, cwd=wt)
        subprocess.check_call(["git", "apply", "/verif/seeded/%s/patch.diff" % n], cwd=wt)
        res = {}
        try:
            for p in ([pid] if only_own else PROPS):
                ev = "/tmp/tlsverif-scratch/evid-matrix-%s" % n
                r = subprocess.run(["/verif/check", p, "--repo", wt], capture_output=True, text=True, env=dict(os.environ, TLSVERIF_EVID=ev))
                res[p] = {0: "silent", 1: "caught"}.get(r.returncode, "error:%d" % r.returncode)
                if r.returncode == 1:
                    keys = [l.strip().split(":")[0] for l in r.stdout.splitlines() if l.startswith("  C")]
                    res[p + "_keys"] = keys[:6]
        finally:
            subprocess.check_call("git checkout -q -- . && git clean -fdq -e target", shell=True, cwd=wt)
            subprocess.run("rm -rf /tmp/tlsverif-scratch/evid-matrix-%s" % n, shell=True)
        out[n] = res
        print(n, {k: v for k, v in res.items() if not k.endswith("_keys") and v != "silent"}, flush=True)
        # partial results survive an interrupted run
        json.dump(out, open("/tmp/tlsverif-scratch/matrix-partial-%s.json" % pid, "w"))
    return out

os.makedirs("/tmp/tlsverif-scratch", exist_ok=True)
with ThreadPoolExecutor(int(os.environ.get("MATRIX_WORKERS", "9"))) as ex:
    allres = {}
    for r in ex.map(run_group, sorted(groups)):
        allres.update(r)
json.dump(allres, open("/verif/seeded/MATRIX.json", "w"), indent=1, sort_keys=True)
missed = [n for n, r in allres.items() if r.get(n.split("-")[0]) != "caught"]
print("MISSED:", missed)
