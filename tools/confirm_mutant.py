#!/usr/bin/env python3
"""Confirm a seeded change produced by a sub-agent, in a scratch worktree of /repo:
   with the patch: the three configurations compile, the existing tests pass (default + serialize), the demo fails;
   without the patch: the demo passes.
Usage: confirm_mutant.py <out_dir (contains patch.diff, demo.rs, meta.json)> <worktree>
On success copies the three files to /verif/seeded/<name>/ and records what was run in meta.json."""
import json, os, shutil, subprocess, sys, time

def sh(cmd, cwd, timeout=1800):
    p = subprocess.run(cmd, cwd=cwd, shell=True, capture_output=True, text=True, timeout=timeout,
                       env=dict(os.environ, CARGO_NET_OFFLINE="true", CARGO_TERM_COLOR="never"))
    return p.returncode, (p.stdout + p.stderr)[-3000:]

def main():
    out, wt = sys.argv[1].rstrip("/"), sys.argv[2]
    name = os.path.basename(out)
    meta = json.load(open(os.path.join(out, "meta.json")))
    feat = meta.get("demo_features") or ""
    featflag = ("--features %s" % feat) if feat else ""
    demo_name = "demo_" + name.replace("-", "_")
    demo_dst = os.path.join(wt, "tests", demo_name + ".rs")
    log = []
    def step(label, cmd, expect_ok):
        rc, o = sh(cmd, wt)
        ok = (rc == 0) == expect_ok
        log.append({"step": label, "cmd": cmd, "rc": rc, "as_expected": ok})
        print("%-40s rc=%d %s" % (label, rc, "ok" if ok else "UNEXPECTED\n" + o))
        return ok
    sh("git checkout -q -- . && git clean -fdq -e target", wt)
    good = True
    try:
        shutil.copy(os.path.join(out, "demo.rs"), demo_dst)
        good &= step("clean tree: demo passes", "cargo test --offline %s --test %s" % (featflag, demo_name), True)
        os.remove(demo_dst)
        good &= step("apply patch", "git apply %s" % os.path.join(out, "patch.diff"), True)
        good &= step("patched: check default", "cargo check --offline", True)
        good &= step("patched: check no-default-features", "cargo check --offline --no-default-features", True)
        good &= step("patched: check serialize", "cargo check --offline --features serialize", True)
        good &= step("patched: existing tests (default)", "cargo test --offline --workspace --no-fail-fast", True)
        good &= step("patched: existing tests (serialize)", "cargo test --offline --features serialize --no-fail-fast", True)
        shutil.copy(os.path.join(out, "demo.rs"), demo_dst)
        good &= step("patched: demo fails", "cargo test --offline %s --test %s" % (featflag, demo_name), False)
    finally:
        if os.path.exists(demo_dst):
            os.remove(demo_dst)
        sh("git checkout -q -- . && git clean -fdq -e target", wt)
    if good:
        dst = os.path.join("/verif/seeded", name)
        os.makedirs(dst, exist_ok=True)
        for f in ("patch.diff", "demo.rs"):
            shutil.copy(os.path.join(out, f), os.path.join(dst, f))
        meta["confirmed"] = {"by": "tools/confirm_mutant.py in a scratch worktree of /repo", "base_commit": subprocess.check_output("git rev-parse HEAD", cwd=wt, shell=True, text=True).strip(), "steps": log}
        json.dump(meta, open(os.path.join(dst, "meta.json"), "w"), indent=1)
        print("CONFIRMED", name)
        return 0
    print("REJECTED", name)
    return 1

if __name__ == "__main__":
    sys.exit(main())
