#!/usr/bin/env python3
"""Regenerates /verif/MANIFEST.json from the table below (claimed = a module analysis/props/<id>.py exists and is listed in CLAIMED)."""
import json, os
V = os.path.dirname(os.path.dirname(os.path.abspath(__file__)))
props = [json.loads(l) for l in open(os.path.join(V, "properties.jsonl"))]

GRAMMAR_NOTE = ("Trusted: rustc nightly (HIR construction, name resolution, const evaluation), nom 7.1.3 combinator and number-parser semantics as summarised in DESIGN.md Appendix B, "
                "nom-derive 0.10.1 primitive impls (its generated code is analysed as source), the reference grammars in spec/grammar.py. Not decided: value round-trip through nom for all inputs (library semantics).")
CLAIMED = {
 "C01": ("MIR panic-site inventory with guard discharge; loop/recursion and allocation discipline", "other",
         "Every panic-capable site of every crate body (MIR Assert terminators, panicking calls, slice indexing, unwrap/expect) is enumerated from the compiler's MIR built with overflow checks and debug assertions on, and each must be discharged by a named rule (constant operand, dominating guard found in the HIR, chunk/length parity, take(N)->[u8;N], enum-indexed fixed-size table); no loops or recursion in crate bodies; size-parameterised allocations need constant sizes; defragmenter growth is dominated by the size check. Decides absence of crate-local panics/overflow/unbounded loops for all inputs; library internals are trusted.", "4 C01"),
 "C02": ("parser-grammar extraction vs RFC grammar; cap-guard truth table", "other",
         "Shape-of-code decision for all inputs: the extracted wire grammar of the three record parsers must equal the RFC 5246 record grammar, the length cap predicate is tabulated over all 65536 lengths, and no parser inside the payload region may answer Incomplete.", "4 C02"),
 "C03": ("parser-grammar extraction; dispatch/repetition shape; one-step = two-step grammar equality", "other",
         "Dispatch table, repetition shape and message grammars are compared with the reference; repetition progress is checked for every many0/many1; the payload grammar of the one-step parser equals the two-step one.", "4 C03"),
 "C04": ("parser-grammar extraction vs RFC 5246/8446/5077/6066 grammars", "other",
         "All 21 exported handshake parsers and the dispatcher are compared element by element (order, widths, endianness, length prefixes, confinement, rejection guards, destinations) with hand-written reference grammars.", "4 C04"),
 "C05": ("parser-grammar extraction; GREASE truth table; decision-table cross-check", "other",
         "Three dispatch tables, 16 tag parsers, list parsers and content parsers compared with reference grammars; GREASE predicate tabulated over all 65536 types; variant->type mapping evaluated abstractly for every variant.", "4 C05"),
 "C06": ("region/remainder dataflow on extracted grammars; type and signature rules; MIR copy-call inventory", "other",
         "Structural necessary-and-sufficient shape for locality (every nested parser runs on its region; nothing extent-sensitive outside a region; remainder is the last element's, never what a parser left of a region) plus type-level zero-copy facts discharged by rustc's borrow checker under forbid(unsafe_code).", "4 C06"),
 "C07": ("abstract interpretation with path forking of the loop-free defragmenter methods over a symbolic state and record; semantic path summaries vs a reference protocol", "other",
         "The four methods are evaluated by an abstract interpreter (helpers, the delegation to parse_record_nocopy, map_err functions and Default inlined) over a symbolic state (type T0, buffer B0) and record (type RT, data D), the one-shot parser's outcome split into six classes. Decisions are named by meaning (in_progress, type in {..}, type_mismatch, too_large[>=,10 MiB] for saturating or checked sums), and each path is summarised as (decisions, parser invocations with the buffer and pseudo header seen, final type, final buffer parts, exit class); the set of summaries must equal spec/defrag.py. Also: MAX constant, private state, Default evaluates to the fresh parser, no other exported function touches the state, fragment signalling of the one-shot parser.", "4 C07"),
 "C08": ("exhaustive decision-table extraction by abstract evaluation", "other",
         "All 1150 cells (25 states x 23 message kinds x 2 directions) are evaluated abstractly from the HIR with arbitrary payloads and compared with a reference relation; content independence is decided by the evaluator refusing any other inspection of the message.", "4 C08"),
 "C09": ("generator-IR extraction from cookie-factory trees vs reference writers; tag agreement with the parser's dispatch tables; length pairing", "other",
         "Writer/reader agreement as a structural fact: emitted layout of the 11 serializers equals reference writers, every emitted type constant is the one the parser dispatches on (tables extracted from the same build), every direct length field prefixes exactly what follows, unsupported variants end in NotYetImplemented; what the Serialize impls run into a fresh Vec emits what the type's generator emits.", "4 C09"),
 "C10": ("parser-grammar extraction vs RFC 6347 grammar", "other",
         "DTLS record header (16/48-bit split), cap, handshake header, fragment predicate, bodies and datagram repetition compared with the reference grammar.", "4 C10"),
 "C11": ("dataflow on extracted grammars: every value reaching a code-point field is a bare wire integer, mentioned in no condition and overlapping no structure-deciding read; open field types", "other",
         "For 47 code-point fields (TLS records, handshake messages, extensions, DTLS handshake messages) and 2 raw lists: every branch/alternative/wrapper of the extracted grammar is followed to the values that can reach the field; each must be a bare integer of full width at the same wire position as in the reference grammar, mentioned in no guard/verify/dispatch, and its bytes must not also be read by a structure-deciding element (earlier alt alternative, re-read after a rewind; static byte ranges through fixed-width elements); list elements are the plain values; field types are open newtypes; extension dispatchers keep unknown types and dispatch only IANA-known ones.", "4 C11"),
 "C13": ("parser-grammar extraction (derive output included) vs RFC 4492/5246 structures", "other",
         "DH/EC/ECDH/signature grammars compared with reference grammars; self-delimitation and the signature flag pairing checked structurally.", "4 C13"),
 "C14": ("parser-grammar extraction vs RFC 6962 structure; length-prefix nesting", "other",
         "SCT list / entry / content grammars compared with the reference; nesting of the three length prefixes checked explicitly.", "4 C14"),
 "C12": ("generated-table extraction from HIR vs source txt and snapshot; canonical symbolic form of the lookup bodies; abstract evaluation of derived sizes", "other",
         "All 352 entries of the generated phf map literal are read from the HIR and compared with the rows of the txt file under the checker's own token table and with the IANA snapshot; the six lookup bodies are evaluated symbolically (helpers and delegations inlined) to the canonical forms CIPHERS.get(&id) / values().find(|c| c.name == name) (+ ok_or); enc_key_size over all 65536 sizes, mac_length/enc_block_size per variant; name tokens vs columns.", "4 C12"),
 "C15": ("abstract evaluation of rand_time/rand_bytes over symbolic randoms of each length; canonical symbolic form of accessors, lookups and constructors; registry vs snapshot", "other",
         "rand_time and rand_bytes are evaluated by the checker's abstract evaluator on a symbolic random (opaque bytes r0..rn-1) of each length in {0..5,8,28,31,32,33,64}: big-endian combination of r0..r3 / r[4..] when len >= 4, else 0 / empty, whatever slice API the body uses; the 12 accessors return their field; cipher_suites/get_ciphers map each id in order through the registry lookup; constructors store their arguments; the registry consulted equals the txt and the snapshot.", "4 C15"),
 "C17": ("constant-table comparison with an IANA reference; abstract evaluation of Display tables, conversions, SignatureScheme helpers and key_bits over whole domains", "other",
         "Every registry constant evaluates (rustc const-eval) to its IANA value; no two constants of a type share a value; each Display body (match, if-chain or helper) is evaluated for every constant value and its neighbours (all 256 values for u8 types): constants print their own name, other values reach the numeric fallback; Debug writes what Display writes for all 256 values of the types whose Debug prints names; From/Deref/AsRef/from_u16/to_be_bytes are the identity (abstract evaluation); is_reserved/hash_alg/sign_alg and key_bits over all 65536 values.", "4 C17"),
 "C18": ("build matrix through the fact extractor; rustc-discharged lint/trait obligations; cross-configuration identity of extracted code", "other",
         "Three configurations must compile and the fourth must be refused by the crate's own compile_error!; forbid(unsafe_code), the unsafe inventory and Send/Sync verdicts come from rustc; every function and type outside the serializer must extract to identical facts in all buildable configurations (static substitute for result equality).", "4 C18"),
 "C16": ("combinator shape check; Failure-freedom of the element grammar", "other",
         "many1(complete(single-record grammar)) over the whole input, element grammar identical to the single-record parser and unable to produce Err::Failure; alias is a direct call.", "4 C16"),
}
NOT_YET = "check under construction in this session; not claimed yet"

def main():
    checks = []
    na = []
    for p in props:
        pid = p["id"]
        if pid in CLAIMED and os.path.exists(os.path.join(V, "analysis", "props", pid.lower() + ".py")):
            tech, cat, text, ref = CLAIMED[pid]
            checks.append({
                "property_id": pid,
                "quick_cmd": "./check %s --tier quick" % pid,
                "thorough_cmd": "./check %s --tier thorough" % pid,
                "evidence_file": "evidence/%s.json" % pid,
                "replay_cmd_template": "./check %s --explain {path}" % pid,
                "engine": "tlsfacts+rules",
                "level_claimed": {"category": cat, "text": text, "design_ref": "DESIGN.md section " + ref},
                "level_note": GRAMMAR_NOTE,
                "technique": "static analysis: " + tech,
            })
        else:
            na.append({"property_id": pid, "reason": NOT_YET})
    m = {"version": 1,
         "setup_cmd": "cd driver && cargo +nightly build --release --offline",
         "hooks": {"guard": "tls_parser_verif", "enable": "none needed: the checks read the compiler's HIR/MIR of the unmodified source through a RUSTC_WORKSPACE_WRAPPER driver; no hook code exists in /repo",
                   "baseline_off_cmd": "cd /repo && cargo test --workspace --no-fail-fast --offline", "source_commits": [], "add_only": True},
         "engines": [{"name": "tlsfacts+rules", "path": "driver/ analysis/ spec/", "serves_properties": [c["property_id"] for c in checks],
                      "kind_free_text": "rustc_private fact extractor (HIR with resolved paths, MIR summaries, type facts) + Python rule engines over the facts (static analysis; nothing of /repo is executed)"}],
         "checks": checks,
         "not_applicable": na,
         "notes": "Static-analysis family only. Ten genuine defects found while building were repaired by `fix:` commits in /repo and are recorded in known_findings.json (status fixed). See DESIGN.md."}
    json.dump(m, open(os.path.join(V, "MANIFEST.json"), "w"), indent=1)
    print("claimed:", [c["property_id"] for c in checks], "not yet:", [n["property_id"] for n in na])

main()
