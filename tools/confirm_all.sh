#!/bin/bash
# confirm every mutant in /tmp/mut/out that is not yet in /verif/seeded (sequential per worktree, parallel across)
for id in "$@"; do
  ( for v in a b; do d=/tmp/mut/out/$id-$v; [ -f $d/patch.diff ] && [ ! -d /verif/seeded/$id-$v ] && /verif/tools/confirm_mutant.py $d /tmp/mut/$id > /tmp/mut/out/$id-$v.confirm.log 2>&1; done ) &
done
wait
tail -n1 /tmp/mut/out/*.confirm.log
