#!/bin/bash
# rf_some.sh "<names>" [props...]: re-run given refactorings (sequential per worktree, parallel across worktrees)
cd /verif
names="$1"; shift
declare -A groups
for n in $names; do id=${n%%-*}; groups[$id]="${groups[$id]} $n"; done
for id in "${!groups[@]}"; do
  ( for n in ${groups[$id]}; do tools/try_refactor.py refactors/$n /tmp/mut4/$id --no-confirm "$@" 2>&1 | grep -E "^ALARM |^    C|^SILENT|^ALARMS|REJECTED" | cut -c1-${COLS:-300} > /tmp/mut4/outr/$n.q.log; done ) &
done
wait
for n in $names; do cat /tmp/mut4/outr/$n.q.log; done
