#!/usr/bin/env python3
"""Merge the per-property partial results an interrupted tools/matrix.py run left in /tmp/tlsverif-scratch into
seeded/MATRIX.json (changes that were not reached keep whatever an earlier own-check run recorded for them)."""
import glob, json, os
dst = "/verif/seeded/MATRIX.json"
allres = json.load(open(dst)) if os.path.exists(dst) else {}
n = 0
for f in glob.glob("/tmp/tlsverif-scratch/matrix-partial-*.json"):
    for name, res in json.load(open(f)).items():
        if len([k for k in res if not k.endswith("_keys")]) >= len([k for k in allres.get(name, {}) if not k.endswith("_keys")]):
            allres[name] = res
            n += 1
json.dump(allres, open(dst, "w"), indent=1, sort_keys=True)
full = sum(1 for r in allres.values() if len([k for k in r if not k.endswith("_keys")]) == 18)
print("merged %d entries; %d changes in total, %d with all 18 checks" % (n, len(allres), full))
