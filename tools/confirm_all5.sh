#!/bin/bash
# confirm round-5 mutants (variants i,j) produced under /tmp/mut5
for id in "$@"; do
  ( for v in i j; do d=/tmp/mut5/out/$id-$v; [ -f $d/patch.diff ] && [ ! -d /verif/seeded/$id-$v ] && /verif/tools/confirm_mutant.py $d /tmp/mut5/$id > /tmp/mut5/out/$id-$v.confirm.log 2>&1; done ) &
done
wait
for id in "$@"; do tail -qn1 /tmp/mut5/out/$id-*.confirm.log; done
