#!/bin/bash
# confirm round-2 mutants (variants e,f) produced under /tmp/mut3
for id in "$@"; do
  ( for v in e f; do d=/tmp/mut3/out/$id-$v; [ -f $d/patch.diff ] && [ ! -d /verif/seeded/$id-$v ] && /verif/tools/confirm_mutant.py $d /tmp/mut3/$id > /tmp/mut3/out/$id-$v.confirm.log 2>&1; done ) &
done
wait
tail -qn1 /tmp/mut3/out/*.confirm.log
