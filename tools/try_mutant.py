#!/usr/bin/env python3
"""Run checks against a seeded change in a scratch worktree (never /repo itself here; the registered way
`git -C /repo apply` + run + `git -C /repo checkout -- .` is equivalent).
Usage: try_mutant.py <seeded name e.g. C02-a> [property ids ...]   (default: the property of the name)"""
import os, subprocess, sys
name = sys.argv[1]
props = sys.argv[2:] or [name.split("-")[0]]
wt = "/tmp/mutx/%s" % name.split("-")[0]  # scratch worktree of /repo (created on demand; remove with `git -C /repo worktree remove --force`)
if not os.path.isdir(wt):
    os.makedirs(os.path.dirname(wt), exist_ok=True)
    subprocess.check_call(["git", "-C", "/repo", "worktree", "add", "-q", "--detach", wt, "HEAD"])
patch = "/verif/seeded/%s/patch.diff" % name
subprocess.check_call("git checkout -q -- . && git clean -fdq -e target", shell=True, cwd=wt)
subprocess.check_call(["git", "apply", patch], cwd=wt)
rc_all = 0
try:
    for p in props:
        r = subprocess.run(["/verif/check", p, "--repo", wt], capture_output=True, text=True, env=dict(os.environ, TLSVERIF_EVID="/tmp/tlsverif-scratch/evid-mut"))
        lines = [l for l in r.stdout.splitlines() if l.startswith("VIOLATION") or l.startswith("  C") or "rule instances" in l]
        print("== %s on %s: rc=%d" % (p, name, r.returncode))
        print("\n".join(lines[:12]))
        if r.returncode not in (0, 1):
            print(r.stderr[-1500:])
        rc_all |= (r.returncode == 1)
finally:
    subprocess.check_call("git checkout -q -- . && git clean -fdq -e target", shell=True, cwd=wt)
print("CAUGHT" if rc_all else "MISSED", name)
