#!/bin/bash
# re-run every check against every kept refactoring (9 worktrees in parallel); prints the alarms
cd /verif
run_group() { id=$1; for d in refactors/$id-*; do tools/try_refactor.py $d /tmp/mut4/$id --no-confirm 2>&1 | grep -E "^ALARM|^    |^SILENT|^ALARMS|REJECTED"; done > /tmp/mut4/outr/$id.rfall.log; }
for id in C01 C02 C03 C04 C05 C06 C07 C08 C09; do run_group $id & done; wait
for id in C10 C11 C12 C13 C14 C15 C16 C17 C18; do run_group $id & done; wait
cat /tmp/mut4/outr/C*.rfall.log | cut -c1-${COLS:-260}
