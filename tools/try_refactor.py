#!/usr/bin/env python3
"""Confirm a behaviour-preserving refactoring produced by a sub-agent and run every check against it.
   with the patch: three configurations compile, existing tests pass (default + serialize), demo passes;
   without the patch: demo passes.  Then all 18 checks run on the patched worktree: every alarm is a false alarm
   (or a fail-closed "cannot read" report) to be looked at.
Usage: try_refactor.py <out_dir (patch.diff, demo.rs, meta.json)> <worktree> [--no-confirm] [props...]
Keeps the files under /verif/refactors/<name>/ with the verdicts in meta.json."""
import json, os, shutil, subprocess, sys
from concurrent.futures import ThreadPoolExecutor

def sh(cmd, cwd, timeout=1800):
    p = subprocess.run(cmd, cwd=cwd, shell=True, capture_output=True, text=True, timeout=timeout,
                       env=dict(os.environ, CARGO_NET_OFFLINE="true", CARGO_TERM_COLOR="never"))
    return p.returncode, (p.stdout + p.stderr)[-3000:]

def main():
    args = [a for a in sys.argv[1:] if not a.startswith("--")]
    out, wt = os.path.abspath(args[0].rstrip("/")), args[1]
    props = args[2:] or ["C%02d" % i for i in range(1, 19)]
    confirm = "--no-confirm" not in sys.argv
    name = os.path.basename(out)
    meta = json.load(open(os.path.join(out, "meta.json")))
    feat = meta.get("demo_features") or ""
    featflag = ("--features %s" % feat) if feat else ""
    demo_name = "demo_" + name.replace("-", "_")
    demo_dst = os.path.join(wt, "tests", demo_name + ".rs")
    log = []
    def step(label, cmd, expect_ok=True):
        rc, o = sh(cmd, wt)
        ok = (rc == 0) == expect_ok
        log.append({"step": label, "cmd": cmd, "rc": rc, "as_expected": ok})
        print("%-40s rc=%d %s" % (label, rc, "ok" if ok else "UNEXPECTED\n" + o))
        return ok
    sh("git checkout -q -- . && git clean -fdq -e target", wt)
    good = True
    verdicts = {}
    try:
        if confirm:
            shutil.copy(os.path.join(out, "demo.rs"), demo_dst)
            good &= step("clean tree: demo passes", "cargo test --offline %s --test %s" % (featflag, demo_name))
            os.remove(demo_dst)
        good &= step("apply patch", "git apply %s" % os.path.join(out, "patch.diff"))
        if confirm:
            good &= step("patched: check default", "cargo check --offline")
            good &= step("patched: check no-default-features", "cargo check --offline --no-default-features")
            good &= step("patched: check serialize", "cargo check --offline --features serialize")
            good &= step("patched: existing tests (default)", "cargo test --offline --workspace --no-fail-fast")
            good &= step("patched: existing tests (serialize)", "cargo test --offline --features serialize --no-fail-fast")
            shutil.copy(os.path.join(out, "demo.rs"), demo_dst)
            good &= step("patched: demo passes", "cargo test --offline %s --test %s" % (featflag, demo_name))
            os.remove(demo_dst)
        if good:
            def one(p):
                r = subprocess.run(["/verif/check", p, "--repo", wt], capture_output=True, text=True,
                                   env=dict(os.environ, TLSVERIF_EVID="/tmp/tlsverif-scratch/evid-rf-%s-%s" % (name, p)))
                keys = [l.strip()[:260] for l in r.stdout.splitlines() if l.startswith("  C")]
                shutil.rmtree("/tmp/tlsverif-scratch/evid-rf-%s-%s" % (name, p), ignore_errors=True)
                return p, r.returncode, keys
            with ThreadPoolExecutor(6) as ex:
                for p, rc, keys in ex.map(one, props):
                    verdicts[p] = {"rc": rc, "reported": keys[:6]}
                    if rc != 0:
                        print("ALARM %s on %s rc=%d" % (p, name, rc))
                        for k in keys[:6]:
                            print("   ", k)
    finally:
        if os.path.exists(demo_dst):
            os.remove(demo_dst)
        sh("git checkout -q -- . && git clean -fdq -e target", wt)
    if not good:
        print("REJECTED", name)
        return 1
    dst = os.path.join("/verif/refactors", name)
    os.makedirs(dst, exist_ok=True)
    for f in ("patch.diff", "demo.rs"):
        if os.path.abspath(os.path.join(out, f)) != os.path.abspath(os.path.join(dst, f)):
            shutil.copy(os.path.join(out, f), os.path.join(dst, f))
    old = {}
    if os.path.exists(os.path.join(dst, "meta.json")):
        old = json.load(open(os.path.join(dst, "meta.json")))
    if confirm or "confirmed" not in old:
        meta["confirmed"] = {"by": "tools/try_refactor.py in a scratch worktree of /repo", "steps": log}
    else:
        meta["confirmed"] = old["confirmed"]
    v = old.get("checks", {})
    v.update(verdicts)
    meta["checks"] = v
    # what the checks said the first time this refactoring was tried (kept for DESIGN.md section 8.2)
    meta["first_alarms"] = old.get("first_alarms", sorted(p for p, x in verdicts.items() if x["rc"] != 0)) if (old or len(verdicts) == 18) else None
    json.dump(meta, open(os.path.join(dst, "meta.json"), "w"), indent=1)
    alarms = [p for p, x in verdicts.items() if x["rc"] != 0]
    stale = [p for p, x in v.items() if x["rc"] != 0 and p not in verdicts]
    print("SILENT" if not alarms else "ALARMS %s" % alarms, name, ("(not re-run, alarmed before: %s)" % stale) if stale else "")
    return 0

if __name__ == "__main__":
    sys.exit(main())
