"""Generator IR: what a cookie-factory serializer emits, extracted from the HIR (nothing is run).

gterm := [step...]
 step := ["emit", bits, endian, sym] | ["bytes", sym] | ["lenp", bits, gterm]   (length prefix = MEASURED length of the nested output)
       | ["repeat", src_sym, gterm]  (elements referred to as ["elem"]) | ["switch", scrut, [[label, gterm]...], default_gterm_or_None]
       | ["nyi"] (Err(GenError::NotYetImplemented)) | ["opaque", text]
"""
import json
from .core import strip, strip_ref, is_try, path_of
from .pir import Ev, P, N, fld, sym_str, Closure

CF = "cookie_factory::"
EMIT = {CF + "bytes::be_u8": (8, "be"), CF + "bytes::be_u16": (16, "be"), CF + "bytes::be_u24": (24, "be"), CF + "bytes::be_u32": (32, "be"), CF + "bytes::be_u64": (64, "be"),
        CF + "bytes::le_u8": (8, "le"), CF + "bytes::le_u16": (16, "le"), CF + "bytes::le_u24": (24, "le"), CF + "bytes::le_u32": (32, "le")}


class GenVal:
    def __init__(self, gterm):
        self.gterm = gterm


class FnPath:
    """a named function passed as a value"""
    def __init__(self, hir):
        self.hir = hir


class GenEv:
    def __init__(self, F):
        self.F = F
        self.ev = Ev(F)
        self.depth = 0
        self.called = set()

    def fn_gterm(self, path):
        f = self.F.fn(path)
        if f is None:
            raise KeyError(path)
        env = {}
        for i, p in enumerate(f["params"]):
            self.ev.bind_pat(p, P("a%d" % i), env)
        return self.gen(f["hir"], env)

    def sym(self, e, env):
        env2 = {k: v for k, v in env.items() if not isinstance(v, GenVal) and v != "__out__"}
        return self.ev.sym(e, env2, {})

    def gen(self, e, env):
        """e evaluates to a SerializeFn (or is an applied form G(out) / a Result chain): -> gterm"""
        e = strip_ref(e)
        k = e["k"]
        if k == "block":
            env = dict(env)
            pre = []
            for s in e["stmts"]:
                if s["k"] == "item":
                    continue
                if s["k"] == "let" and s.get("init") is not None:
                    init = strip(s["init"])
                    inner = is_try(init)
                    if inner is not None:
                        inner = strip(inner)
                        if inner["k"] == "call" and path_of(inner["f"]) == CF + "internal::gen" and len(inner["args"]) == 2:
                            g = self.gen(inner["args"][0], env)
                            marker = json.dumps(g)
                            pat = s["pat"]
                            if pat["k"] == "ptuple" and len(pat["pats"]) == 2:
                                self.ev.bind_pat(pat["pats"][0], ["genbuf", marker], env)
                                self.ev.bind_pat(pat["pats"][1], ["genlen", marker], env)
                                env["__gen__" + marker] = GenVal(g)
                                continue
                        if inner["k"] == "call" and self.is_out(inner["args"][-1] if inner["args"] else None, env) and s["pat"]["k"] == "bind":
                            # let out = G(out)?;   -- one more serializer applied in sequence
                            pre += self.gen(inner, env)
                            env[s["pat"]["id"]] = "__out__"
                            continue
                        return [["opaque", "let with ?"]]
                    self.ev.bind_pat(s["pat"], self.sym(init, env), env)
                    continue
                if s["k"] in ("semi", "sexpr"):
                    se = strip(s["e"])
                    idx_ = e["stmts"].index(s)
                    rest_ = {"k": "block", "stmts": e["stmts"][idx_ + 1:], "expr": e["expr"]}
                    r_ = self.early_return(se, rest_, env)
                    if r_ is not None:
                        return self.fuse(pre + r_, env) if pre else r_
                return [["opaque", "statement in generator block"]]
            if e["expr"] is None:
                return [["opaque", "block without tail"]]
            tail = self.gen(e["expr"], env)
            return self.fuse(pre + tail, env) if pre else tail
        if k == "closure":
            # move |out| BODY
            if e["params"] and e["params"][0]["k"] == "bind":
                env = dict(env)
                env[e["params"][0]["id"]] = "__out__"
            return self.gen(e["body"], env)
        if k == "if":
            c = strip(e["c"])
            if c["k"] == "letexpr" and e.get("f") is not None:
                # if let PAT = x { A } else { B }: a two-way switch on the variant
                p = c["pat"]
                while p["k"] in ("pref", "pderef"):
                    p = p["pat"]
                sc = self.sym(c["init"], env)
                env2 = dict(env)
                label = None
                if p["k"] == "ptuplestruct":
                    label = p["res"]["path"]
                    for i, sp in enumerate(p["pats"]):
                        self.ev.bind_pat(sp, ["payload", label, i], env2)
                elif p["k"] == "pexpr" and p["e"]["k"] == "path":
                    label = p["e"]["path"]
                other = {"core::option::Option::Some": "core::option::Option::None", "core::option::Option::None": "core::option::Option::Some"}.get(label)
                if label is not None and other is not None:
                    return [["switch", sc, [[label, self.gen(e["t"], env2)], [other, self.gen(e["f"], env)]], None]]
                if label is not None:
                    return [["switch", sc, [[label, self.gen(e["t"], env2)]], self.gen(e["f"], env)]]
            return [["opaque", "generator if"]]
        if k == "local":
            v = env.get(e["id"])
            if isinstance(v, GenVal):
                return v.gterm
            return [["opaque", "local %s as generator" % e["name"]]]
        if k == "match" and is_try(e) is None:
            sc = self.sym(e["scrut"], env)
            arms = []
            default = None
            for a in e["arms"]:
                p = a["pat"]
                while p["k"] in ("pref", "pderef"):
                    p = p["pat"]
                env2 = dict(env)
                if p["k"] == "wild":
                    default = self.gen(a["body"], env2)
                    break
                if p["k"] == "ptuplestruct":
                    label = p["res"]["path"]
                    for i, sp in enumerate(p["pats"]):
                        self.ev.bind_pat(sp, ["payload", label, i], env2)
                elif p["k"] == "pexpr" and p["e"]["k"] == "path":
                    label = p["e"]["path"]
                elif p["k"] == "bind":
                    default = self.gen(a["body"], env2)
                    break
                elif p["k"] == "por":
                    # A(_) | B | C(_) => body: one arm per variant (no bindings: the payloads are ignored)
                    labels = []
                    for sp in p["pats"]:
                        while sp["k"] in ("pref", "pderef"):
                            sp = sp["pat"]
                        if sp["k"] == "ptuplestruct" and all(q["k"] == "wild" for q in sp["pats"]):
                            labels.append(sp["res"]["path"])
                        elif sp["k"] == "pstruct" and not sp["fields"]:
                            labels.append(sp["res"]["path"])
                        elif sp["k"] == "pexpr" and sp["e"]["k"] == "path":
                            labels.append(sp["e"]["path"])
                        else:
                            labels = None
                            break
                    if labels is None:
                        arms.append(["?por", [["opaque", "pattern"]]])
                        continue
                    body = self.gen(a["body"], env2)
                    arms.extend([lab, body] for lab in labels)
                    continue
                else:
                    arms.append(["?" + p["k"], [["opaque", "pattern"]]])
                    continue
                arms.append([label, self.gen(a["body"], env2)])
            return [["switch", sc, arms, default]]
        if k == "call":
            f = strip(e["f"])
            fp = path_of(f)
            args = e["args"]
            if f["k"] == "local" and isinstance(env.get(f["id"]), Closure):
                # a function-valued parameter (e.g. the length writer handed to a generic helper) applied to its arguments
                clo = env[f["id"]]
                env2 = dict(clo.env)
                for p, a in zip(clo.hir["params"], args):
                    self.ev.bind_pat(p, self.sym(a, env), env2)
                return self.gen(clo.hir["body"], env2)
            # applied form: G(out)
            if f["k"] != "path" or (fp and not fp.startswith(CF) and f.get("dk") not in ("Fn", "AssocFn") and not (f.get("dk") or "").startswith("Ctor")):
                return self.gen(f, env)
            if f["k"] == "path" and len(args) == 1 and strip(args[0]).get("k") == "local" and strip(args[0])["name"] == "out" and fp not in EMIT and not (fp or "").startswith(CF):
                pass
            if fp in EMIT:
                bits, en = EMIT[fp]
                return [["emit", bits, en, self.sym(args[0], env)]]
            if fp == CF + "combinator::slice":
                return [["bytes", self.sym(args[0], env)]]
            if fp == CF + "sequence::tuple":
                t = strip(args[0])
                out = []
                for x in t["xs"]:
                    out += self.gen(x, env)
                return self.fuse(out, env)
            if fp == CF + "sequence::pair" and len(args) == 2:
                return self.fuse(self.gen(args[0], env) + self.gen(args[1], env), env)
            if fp == CF + "multi::all":
                return self.repeat_iter(args[0], env)
            if fp == CF + "multi::many_ref":
                src = self.sym(args[0], env)
                return [["repeat", src, self.apply_fn(args[1], ["elem"], env)]]
            if fp == "core::result::Result::Err":
                inner = strip(args[0])
                if path_of(inner) == CF + "internal::GenError::NotYetImplemented":
                    return [["nyi"]]
                return [["opaque", "Err(..)"]]
            if f["k"] == "path" and f.get("local") and f.get("dk") in ("Fn", "AssocFn"):
                return self.call_local(f.get("resolved") or fp, args, env)
            return [["opaque", "call " + str(fp)]]
        if k == "mcall":
            if e.get("path") == "core::result::Result::<T, E>::and_then":
                return self.fuse(self.gen(e["recv"], env) + self.gen(e["args"][0], env), env)
            local = e.get("resolved_local") if e.get("resolved") else e.get("local")
            if local and e["args"] and self.is_out(e["args"][-1], env):
                # x.write_into(out): a method of the crate that runs a serializer on `out`
                callee = self.F.fn(e.get("resolved") or e.get("path"))
                if callee is not None and len(callee["params"]) == len(e["args"]) + 1 and self.depth <= 30:
                    self.called.add(callee["path"])
                    env2 = {}
                    self.ev.bind_pat(callee["params"][0], self.sym(e["recv"], env), env2)
                    for p_, a_ in zip(callee["params"][1:-1], e["args"][:-1]):
                        self.ev.bind_pat(p_, self.sym(a_, env), env2)
                    if callee["params"][-1]["k"] == "bind":
                        env2[callee["params"][-1]["id"]] = "__out__"
                    self.depth += 1
                    try:
                        return self.gen(callee["hir"], env2)
                    finally:
                        self.depth -= 1
            return [["opaque", "method " + e["name"]]]
        return [["opaque", "generator expr " + k]]

    def run_into_vec(self, e, env, depth=0):
        """e : Result<Vec<u8>, GenError>.  If e runs one serializer on a fresh Vec and returns the bytes written
        (gen_simple(G, Vec::new()), gen(G, Vec::new()).map(|(b, _)| b), or a helper of the crate doing that) -> gterm of G; else None"""
        e = strip(e)
        if depth > 6:
            return None
        def fresh_vec(x):
            x = strip(x)
            return x["k"] == "call" and path_of(x["f"]) in ("alloc::vec::Vec::<T>::new", "alloc::vec::Vec::<T>::with_capacity") or \
                (x["k"] == "call" and (path_of(x["f"]) or "").endswith("Default::default") and x.get("ty", "").startswith("alloc::vec::Vec<u8"))
        if e["k"] == "call" and path_of(e["f"]) == CF + "internal::gen_simple" and len(e["args"]) == 2 and fresh_vec(e["args"][1]):
            return self.gen(e["args"][0], env)
        if e["k"] == "mcall" and e.get("path") == "core::result::Result::<T, E>::map" and len(e["args"]) == 1:
            r = strip(e["recv"])
            clo = strip_ref(e["args"][0])
            if r["k"] == "call" and path_of(r["f"]) == CF + "internal::gen" and len(r["args"]) == 2 and fresh_vec(r["args"][1]) and clo["k"] == "closure" and len(clo["params"]) == 1:
                env2 = {}
                self.ev.bind_pat(clo["params"][0], ["tuple", [["written"], ["count"]]], env2)
                if self.ev.sym(clo["body"], env2, {}) == ["written"]:
                    return self.gen(r["args"][0], env)
            return None
        if e["k"] == "call":
            f = strip(e["f"])
            if f["k"] == "path" and f.get("dk") in ("Fn", "AssocFn") and (f.get("resolved_local") if f.get("resolved") else f.get("local")):
                callee = self.F.fn(f.get("resolved") or f["path"])
                if callee is not None and len(callee["params"]) == len(e["args"]):
                    env2 = {}
                    for p_, a_ in zip(callee["params"], e["args"]):
                        if p_["k"] != "bind":
                            return None
                        a2 = strip_ref(a_)
                        if "SerializeFn" in (a2.get("ty") or "") or a2["k"] in ("closure",) or (a2["k"] == "call" and "impl" in (a2.get("ty") or "")):
                            env2[p_["id"]] = GenVal(self.gen(a_, env))
                        else:
                            env2[p_["id"]] = self.sym(a_, env)
                    return self.run_into_vec(callee["hir"], env2, depth + 1)
        if e["k"] == "block" and not e["stmts"] and e["expr"] is not None:
            return self.run_into_vec(e["expr"], env, depth)
        return None

    def call_local(self, path, args, env):
        callee = self.F.fn(path)
        if callee is None or self.depth > 30:
            return [["opaque", "no body for " + path]]
        self.called.add(path)
        env2 = {}
        for p, a in zip(callee["params"], args):
            a2 = strip_ref(a)
            ty = p.get("ty", "")
            is_gen = a2["k"] in ("call", "closure") and ("SerializeFn" in ty or ty in ("F", "&F") or len(ty) <= 2) or (a2["k"] == "local" and isinstance(env.get(a2["id"]), GenVal))
            if a2["k"] == "closure" and a2["params"] and "WriteContext" not in a2["params"][0].get("ty", "") and p["k"] == "bind":
                # a plain function of values (not a serializer): kept as a function
                env2[p["id"]] = Closure(a2, dict(env), {})
                continue
            if a2["k"] == "local" and isinstance(env.get(a2["id"]), (Closure, FnPath)) and p["k"] == "bind":
                env2[p["id"]] = env[a2["id"]]
                continue
            if a2["k"] == "path" and a2.get("dk") in ("Fn", "AssocFn") and a2.get("local") and p["k"] == "bind" and not ("SerializeFn" in ty and "Fn(" not in ty):
                # a function handed to a generic helper (e.g. the per-item serializer of a list helper)
                env2[p["id"]] = FnPath(a2)
                continue
            if is_gen:
                self.ev.bind_pat(p, GenVal(self.gen(a, env)), env2) if p["k"] == "bind" else None
                if p["k"] == "bind":
                    env2[p["id"]] = GenVal(self.gen(a, env))
            else:
                self.ev.bind_pat(p, self.sym(a, env), env2)
        self.depth += 1
        try:
            return self.gen(callee["hir"], env2)
        finally:
            self.depth -= 1

    def early_return(self, se, rest, env):
        """`if let P = x { return A(out); }  REST`  and  `if c { return Err(NotYetImplemented); } REST` as a dispatch"""
        if se["k"] != "if" or se.get("f") is not None:
            return None
        tb = strip(se["t"])
        rx = None
        if tb["k"] == "block" and len(tb["stmts"]) == 1 and tb["expr"] is None and tb["stmts"][0]["k"] in ("semi", "sexpr") and strip(tb["stmts"][0]["e"])["k"] == "ret":
            rx = strip(tb["stmts"][0]["e"])["x"]
        elif tb["k"] == "block" and not tb["stmts"] and tb["expr"] is not None and strip(tb["expr"])["k"] == "ret":
            rx = strip(tb["expr"])["x"]
        elif tb["k"] == "ret":
            rx = tb["x"]
        if rx is None:
            return None
        c = strip(se["c"])
        neg = False
        while c["k"] == "un" and c["op"] == "!":
            neg = not neg
            c = strip(c["a"])
        if c["k"] == "letexpr" and not neg:
            p = c["pat"]
            while p["k"] in ("pref", "pderef"):
                p = p["pat"]
            env2 = dict(env)
            if p["k"] == "ptuplestruct":
                label = p["res"]["path"]
                for i, sp in enumerate(p["pats"]):
                    self.ev.bind_pat(sp, ["payload", label, i], env2)
            elif p["k"] == "pexpr" and p["e"]["k"] == "path":
                label = p["e"]["path"]
            else:
                return None
            return [["switch", self.sym(c["init"], env), [[label, self.gen(rx, env2)]], self.gen(rest, env)]]
        if c["k"] == "match" and len(c["arms"]) == 2:
            # matches!(x, V) lowered to match x { V => true, _ => false }
            a0, a1 = c["arms"]
            p = a0["pat"]
            while p["k"] in ("pref", "pderef"):
                p = p["pat"]
            label = p["e"]["path"] if (p["k"] == "pexpr" and p["e"]["k"] == "path") else (p["res"]["path"] if p["k"] in ("ptuplestruct", "pstruct") else None)
            b0, b1 = strip(a0["body"]), strip(a1["body"])
            if label is not None and b0.get("b") is True and b1.get("b") is False:
                hit, miss = self.gen(rx, env), self.gen(rest, env)
                if neg:
                    hit, miss = miss, hit
                return [["switch", self.sym(c["scrut"], env), [[label, hit]], miss]]
        return None

    def is_out(self, a, env):
        if a is None:
            return False
        a = strip(a)
        return a.get("k") == "local" and (env.get(a["id"]) == "__out__" or "WriteContext" in a.get("ty", ""))

    def apply_fn(self, fexpr, arg, env):
        f = strip_ref(fexpr)
        if f["k"] == "local":
            fv = env.get(f["id"])
            if isinstance(fv, Closure):
                env2 = dict(fv.env)
                self.ev.bind_pat(fv.hir["params"][0], arg, env2)
                return self.gen(fv.hir["body"], env2)
            if isinstance(fv, FnPath):
                f = fv.hir
        if f["k"] == "closure":
            env2 = dict(env)
            self.ev.bind_pat(f["params"][0], arg, env2)
            return self.gen(f["body"], env2)
        if f["k"] == "path" and path_of(f) in EMIT:
            bits, en = EMIT[path_of(f)]
            return [["emit", bits, en, arg]]
        if f["k"] == "path" and path_of(f) == CF + "combinator::slice":
            return [["bytes", arg]]
        if f["k"] == "path" and f.get("local"):
            callee = self.F.fn(f.get("resolved") or f["path"])
            if callee is not None:
                self.called.add(callee["path"])
                env2 = {}
                self.ev.bind_pat(callee["params"][0], arg, env2)
                return self.gen(callee["hir"], env2)
        return [["opaque", "function value"]]

    def repeat_iter(self, it, env):
        """all(xs.iter()[.copied()][.map(value fn)]*.map(serializer fn)): one run of the serializer per element, on the
        element passed through the value functions"""
        IT = "core::iter::traits::iterator::Iterator::"
        it = strip(it)
        fns = []
        while it["k"] == "mcall" and it.get("path") in (IT + "map", IT + "copied", IT + "cloned"):
            if it["path"] == IT + "map":
                fns.append(it["args"][0])
            it = strip(it["recv"])
        if not (fns and it["k"] == "mcall" and it.get("path") == "core::slice::<impl [T]>::iter"):
            return [["opaque", "iterator"]]
        arg = ["elem"]
        for vf in reversed(fns[1:]):
            try:
                arg = self.ev.fn_value(vf, env, {})(arg)
            except Exception:
                return [["opaque", "iterator"]]
        return [["repeat", self.sym(it["recv"], env), self.apply_fn(fns[0], arg, env)]]

    def fuse(self, steps, env):
        """emit(genlen X) followed by bytes(genbuf X) -> lenp"""
        out = []
        i = 0
        while i < len(steps):
            s = steps[i]
            if s[0] == "emit" and i + 1 < len(steps) and steps[i + 1][0] == "bytes":
                ln, bf = s[3], steps[i + 1][1]
                lnv = ln[2] if ln[0] == "cast" else ln
                if lnv[0] == "genlen" and bf[0] == "genbuf" and lnv[1] == bf[1]:
                    out.append(["lenp", s[1], json.loads(bf[1])] if s[2] == "be" else ["opaque", "little-endian length"])
                    i += 2
                    continue
            out.append(s)
            i += 1
        return out


def gterm_str(g, ind=0):
    pad = "  " * ind
    out = []
    for s in g:
        if s[0] == "emit":
            out.append("%su%d %s %s" % (pad, s[1], s[2], sym_str(s[3])))
        elif s[0] == "bytes":
            out.append("%sbytes %s" % (pad, sym_str(s[1])))
        elif s[0] == "lenp":
            out.append("%slen-prefixed u%d:" % (pad, s[1]))
            out.append(gterm_str(s[2], ind + 1))
        elif s[0] == "repeat":
            out.append("%sfor each of %s:" % (pad, sym_str(s[1])))
            out.append(gterm_str(s[2], ind + 1))
        elif s[0] == "switch":
            out.append("%sswitch %s:" % (pad, sym_str(s[1])))
            for lab, g2 in s[2]:
                out.append("%s case %s:" % (pad, lab.split("::")[-1]))
                out.append(gterm_str(g2, ind + 2))
            if s[3] is not None:
                out.append("%s default:" % pad)
                out.append(gterm_str(s[3], ind + 2))
        else:
            out.append(pad + json.dumps(s))
    return "\n".join(out)
