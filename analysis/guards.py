"""Path conditions available at a HIR node (the crate's bodies are loop-free and structured):
a forward walk that records, for a target expression (identified by its span byte positions), the
conditions that hold on every path reaching it, as canonical pir syms."""
from .core import strip, is_try
from .pir import Ev, P, N, canon, Opaque, Closure


def add_fact(facts, c):
    """add c (sym) splitting conjunctions / negated disjunctions"""
    if not isinstance(c, list) or not c:
        return
    if c[0] == "op" and c[1] == "&&":
        add_fact(facts, c[2]); add_fact(facts, c[3]); return
    if c[0] == "not" and c[1][0] == "op" and c[1][1] == "||":
        add_fact(facts, canon(["not", c[1][2]])); add_fact(facts, canon(["not", c[1][3]])); return
    facts.append(c)


def neg(c):
    return canon(["not", c])


def diverges(e):
    """does evaluating e always leave the function (return / panic)?"""
    e = strip(e)
    if e is None:
        return False
    k = e["k"]
    if k == "ret":
        return True
    if k == "block":
        for s in e["stmts"]:
            if s["k"] in ("semi", "sexpr") and diverges(s["e"]):
                return True
        return e["expr"] is not None and diverges(e["expr"])
    if k == "if":
        return e.get("f") is not None and diverges(e["t"]) and diverges(e["f"])
    if k == "call":
        from .core import path_of
        p = path_of(e["f"]) or ""
        return p.startswith("core::panicking::")
    if k == "match" and is_try(e) is None:
        return all(diverges(a["body"]) for a in e["arms"])
    return False


class FactWalker:
    def __init__(self, F, fn):
        self.F = F
        self.fn = fn
        self.ev = Ev(F)
        self.hits = {}  # (lo,hi,kind) -> (facts, env, node, parents)

    def sym(self, e, env):
        try:
            return self.ev.sym(e, {k: v for k, v in env.items()}, {})
        except Opaque:
            return ["opaque", "?"]
        except Exception:
            return ["opaque", "?"]

    def run(self):
        env = {}
        for i, p in enumerate(self.fn["params"]):
            try:
                self.ev.bind_pat(p, P(p.get("name", "arg%d" % i)), env)
            except Opaque:
                pass
        self.walk(self.fn["hir"], [], env, [])
        return self.hits

    def record(self, e, facts, env, parents):
        bp = e.get("bp")
        if bp:
            self.hits.setdefault((bp[0], bp[1], e.get("k")), (list(facts), dict(env), e, list(parents)))

    def walk(self, e, facts, env, parents):
        if e is None or not isinstance(e, dict):
            return
        k = e.get("k")
        self.record(e, facts, env, parents)
        par = parents + [e]
        if k == "block":
            env = dict(env)
            facts = list(facts)
            for s in e["stmts"]:
                sk = s["k"]
                if sk == "let":
                    if s.get("init") is not None:
                        self.walk(s["init"], facts, env, par)
                        init = strip(s["init"])
                        inner = is_try(init)
                        try:
                            if inner is None and init.get("k") != "closure":
                                self.ev.bind_pat(s["pat"], self.sym(init, env), env)
                            elif init.get("k") == "closure":
                                pass
                            else:
                                # value of `x?`: opaque fresh values named after the binders
                                self.bind_opaque(s["pat"], env)
                        except Opaque:
                            self.bind_opaque(s["pat"], env)
                    if s.get("els") is not None:
                        self.walk(s["els"], facts, env, par)
                elif sk in ("semi", "sexpr"):
                    x = strip(s["e"])
                    self.walk(x, facts, env, par)
                    if x.get("k") == "if":
                        c = self.sym(x["c"], env)
                        if x.get("f") is None:
                            if diverges(x["t"]):
                                add_fact(facts, neg(c))
                        else:
                            if diverges(x["t"]) and not diverges(x["f"]):
                                add_fact(facts, neg(c))
                            elif diverges(x["f"]) and not diverges(x["t"]):
                                add_fact(facts, c)
            if e["expr"] is not None:
                self.walk(e["expr"], facts, env, par)
            return
        if k == "if":
            self.walk(e["c"], facts, env, par)
            c = self.sym(e["c"], env)
            f1 = list(facts); add_fact(f1, c)
            self.walk(e["t"], f1, env, par)
            if e.get("f") is not None:
                f2 = list(facts); add_fact(f2, neg(c))
                self.walk(e["f"], f2, env, par)
            return
        if k == "bin" and e["op"] in ("&&", "||"):
            self.walk(e["a"], facts, env, par)
            a = self.sym(e["a"], env)
            f2 = list(facts); add_fact(f2, a if e["op"] == "&&" else neg(a))
            self.walk(e["b"], f2, env, par)
            return
        if k == "match":
            inner = is_try(e)
            if inner is not None:
                self.walk(inner, facts, env, par)
                return
            self.walk(e["scrut"], facts, env, par)
            sc = self.sym(e["scrut"], env)
            seen = []
            for a in e["arms"]:
                f2 = list(facts)
                env2 = dict(env)
                p = a["pat"]
                lits = self.lits(p)
                if lits is not None and len(lits) == 1:
                    add_fact(f2, canon(["op", "==", sc, N(lits[0])]))
                elif lits is None:
                    for v in seen:
                        add_fact(f2, neg(canon(["op", "==", sc, N(v)])))
                    try:
                        self.ev.bind_pat(p, sc, env2)
                    except Opaque:
                        self.bind_opaque(p, env2)
                if lits:
                    seen += lits
                if a.get("guard") is not None:
                    self.walk(a["guard"], f2, env2, par)
                    add_fact(f2, self.sym(a["guard"], env2))
                self.walk(a["body"], f2, env2, par)
            return
        if k == "closure":
            env2 = dict(env)
            for i, p in enumerate(e["params"]):
                self.bind_opaque(p, env2, prefix="cl")
            self.walk(e["body"], facts, env2, par)
            return
        if k in ("assign", "assignop"):
            # a local that is written after a guard no longer satisfies the guard: forget what is known about it
            self.walk(e["b"], facts, env, par)
            tgt = strip(e["a"])
            while tgt.get("k") in ("field", "index"):
                tgt = strip(tgt["x"])
            if tgt.get("k") == "un" and tgt.get("op") == "*":
                tgt = strip(tgt["a"])
            if tgt.get("k") == "local":
                self.kill(tgt, facts, env)
            return
        if k == "addrof" and e.get("mut"):
            tgt = strip(e["x"])
            while tgt.get("k") in ("field", "index"):
                tgt = strip(tgt["x"])
            if tgt.get("k") == "local":
                self.kill(tgt, facts, env)
        # generic descent
        for key in ("f", "recv", "a", "b", "x", "scrut", "init", "i", "base"):
            v = e.get(key)
            if isinstance(v, dict):
                self.walk(v, facts, env, par)
        for key in ("args", "xs"):
            for v in e.get(key) or []:
                self.walk(v, facts, env, par)
        if k == "struct":
            for f in e["fields"]:
                self.walk(f["e"], facts, env, par)

    def kill(self, local, facts, env):
        """the local is (possibly) modified: give it a fresh unknown value and drop every fact that mentions the old one"""
        import json
        old = env.get(local["id"])
        self._gen = getattr(self, "_gen", 0) + 1
        env[local["id"]] = ["local", local["name"], local["id"], "modified#%d" % self._gen]
        if old is not None:
            key = json.dumps(old)
            facts[:] = [f for f in facts if key not in json.dumps(f)]

    def lits(self, p):
        k = p["k"]
        if k == "pexpr":
            x = p["e"]
            if x["k"] == "lit" and "v" in x:
                return [x["v"]]
            if x["k"] == "path" and "val" in x:
                return [x["val"]]
            return []
        if k == "por":
            out = []
            for sp in p["pats"]:
                l = self.lits(sp)
                if l is None:
                    return None
                out += l
            return out
        if k in ("wild", "bind"):
            return None
        return []

    def bind_opaque(self, p, env, prefix="v"):
        k = p["k"]
        if k == "bind":
            env[p["id"]] = ["local", p["name"], p["id"]]
        elif k in ("pref", "pderef"):
            self.bind_opaque(p["pat"], env, prefix)
        elif k in ("ptuple", "ptuplestruct"):
            for sp in p["pats"]:
                self.bind_opaque(sp, env, prefix)
        elif k == "pstruct":
            for f in p["fields"]:
                self.bind_opaque(f["pat"], env, prefix)


# ----------------------------------------------------------------------------- entailment
def entails_ge(facts, x, c):
    """facts |- x >= c  (unsigned integers)"""
    if c <= 0:
        return "unsigned"
    if x[0] == "n":
        return "constant" if x[1] >= c else None
    for f in facts:
        if f[0] == "op" and f[1] == "<=" and f[3] == x and f[2][0] == "n" and f[2][1] >= c:
            return "%d <= x" % f[2][1]
        if f[0] == "op" and f[1] == "<" and f[3] == x and f[2][0] == "n" and f[2][1] + 1 >= c:
            return "%d < x" % f[2][1]
        if f[0] == "op" and f[1] == "==" and ((f[2] == x and f[3][0] == "n" and f[3][1] >= c) or (f[3] == x and f[2][0] == "n" and f[2][1] >= c)):
            return "x == const"
        if c == 1 and f[0] == "not" and f[1][0] == "op" and f[1][1] == "==" and ((f[1][2] == x and f[1][3] == ["n", 0]) or (f[1][3] == x and f[1][2] == ["n", 0])):
            return "x != 0"
    return None


def entails_le(facts, a, b):
    """facts |- a <= b"""
    if a == b:
        return "identical"
    if a[0] == "n" and b[0] == "n":
        return "constants" if a[1] <= b[1] else None
    if a[0] == "n":
        w = entails_ge(facts, b, a[1])   # k <= x  from  k' <= x / k' < x / x == k' with k' large enough
        if w:
            return w
    for f in facts:
        if b[0] == "n" and f[0] == "op" and f[1] in ("<", "<=") and f[2] == a and f[3][0] == "n" and f[3][1] - (1 if f[1] == "<" else 0) <= b[1]:
            return "x %s %d on this path" % (f[1], f[3][1])   # x <= k  from  x < k' / x <= k' with k' small enough
        if f[0] == "op" and f[1] == "<=" and f[2] == a and f[3] == b:
            return "a <= b on this path"
        if f[0] == "op" and f[1] == "<" and f[2] == a and f[3] == b:
            return "a < b on this path"
        if f[0] == "op" and f[1] == "==" and ((f[2] == a and f[3] == b) or (f[2] == b and f[3] == a)):
            return "a == b on this path"
    return None


def entails_even(facts, x):
    if x[0] == "n":
        return "constant" if x[1] % 2 == 0 else None
    for f in facts:
        if f[0] == "not" and f[1][0] == "op" and f[1][1] == "==":
            a, b = f[1][2], f[1][3]
            for p, q in ((a, b), (b, a)):
                if p == ["n", 1] and q[0] == "op" and q[1] == "%" and q[2] == x and q[3] == ["n", 2]:
                    return "x % 2 != 1"
        if f[0] == "op" and f[1] == "==":
            a, b = f[2], f[3]
            for p, q in ((a, b), (b, a)):
                if p == ["n", 0] and q[0] == "op" and q[1] in ("%", "&") and q[2] == x and q[3] in (["n", 2], ["n", 1]):
                    return "x % 2 == 0"
    return None
