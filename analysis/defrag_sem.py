"""Semantic path summaries of the record defragmenter (TlsRecordsParser), read from the HIR: a small abstract
interpreter with path forking.  Nothing is run: the methods are evaluated over symbolic inputs

   state   current_record_type = T0 (split into None / Some(CUR) when first inspected), record_defrag_buffer = B0
   record  hdr.record_type = RT, data = D, hdr = record.hdr
   the one-shot parser's outcome, split into Ok / Incomplete / Error|Failure x Complete|other

Each entry->exit path is summarised as (guards, actions, exit):
  guards : decisions taken, in order, named by what they mean (not by how they are written):
           "in_progress", "type in {A,B}", "type_mismatch", "too_large[>=,10485760]", "parse(data)=Ok", "parse(buf)=Err(Error,Complete)" ...
  actions: ordered effects: "Parse(data)", "Parse(buf)" (buffer parsed under the pseudo header whose length is the buffer's length and
           whose other fields are the record's), "SetType(Some(record.type))", "SetType(None)", "Clear", "Extend(record.data)", ...
  exit   : "Pass(result)" (the one-shot parser's result, unchanged), "Incomplete", "Error(K)", "Failure(K)", "Value(..)", "Panic"
plus the final abstract state (type, buffer parts), from which `semantic()` builds the summary that is compared.
Helper methods, delegations (parse_record -> parse_record_nocopy), map_err with a named function, let-bound conditions,
if / match / if-let / matches!, checked_add or saturating_add size checks are all evaluated, so different ways of writing
the same state machine give the same summaries.  A construct the interpreter cannot read raises Unrec (reported, never ignored).
"""
from .core import strip, strip_ref, path_of, is_try

OUTCOMES = [("Ok",), ("Err", ("Incomplete",)), ("Err", ("Error", "Complete")), ("Err", ("Failure", "Complete")), ("Err", ("Error", "other")), ("Err", ("Failure", "other"))]
RP = "tls_records_parser::TlsRecordsParser"
SOME, NONE = "core::option::Option::Some", "core::option::Option::None"
OK, ERR = "core::result::Result::Ok", "core::result::Result::Err"
NOMERR = "nom::internal::Err::"


def oc_str(o):
    if o == ("Ok",):
        return "Ok"
    if o[1] == ("Incomplete",):
        return "Incomplete"
    return "Err(%s,%s)" % (o[1][0], o[1][1])


RT_BY_VALUE = {20: "ChangeCipherSpec", 21: "Alert", 22: "Handshake", 23: "ApplicationData", 24: "Heartbeat"}


def rt_of_value(v):
    return RT_BY_VALUE.get(v, "0x%02x" % v)


def rt_set_of(values):
    """a test of the record's content type given by the code points it accepts (the complement when that is smaller)"""
    values = sorted(set(values))
    if len(values) <= 128:
        return ("rtset", tuple(sorted(rt_of_value(x) for x in values)), True)
    rest = [x for x in range(256) if x not in set(values)]
    return ("rtset", tuple(sorted(rt_of_value(x) for x in rest)), False)


class Unrec(Exception):
    pass


class St:
    """immutable path state"""
    __slots__ = ("type", "buf", "guards", "actions", "decided")

    def __init__(self, type_="T0", buf=("B0",), guards=(), actions=(), decided=None):
        self.type, self.buf, self.guards, self.actions, self.decided = type_, buf, guards, actions, dict(decided or {})

    def with_(self, **kw):
        s = St(self.type, self.buf, self.guards, self.actions, self.decided)
        for k, v in kw.items():
            setattr(s, k, v)
        return s

    def act(self, a):
        return self.with_(actions=self.actions + (a,))

    def decide(self, atom, val):
        d = dict(self.decided)
        d[atom] = val
        return self.with_(guards=self.guards + ((atom if val else "!" + atom),), decided=d)


class Ret(Exception):
    pass


def rt_name(path):
    return path.split("::")[-1]


class SemExec:
    def __init__(self, F, f, max_depth=6):
        self.F = F
        self.f = f
        self.max_depth = max_depth
        self.paths = []

    # ------------------------------------------------------------------ entry
    def run(self):
        """-> list of (guards, actions, exit, final_type, final_buf)"""
        env = {}
        params = self.f["params"]
        names = []
        for i, p in enumerate(params):
            nm = p.get("name")
            names.append(nm)
            if i == 0 and nm == "self":
                self.bind(p, ("self",), env)
            elif nm == "record" or "TlsRawRecord" in p.get("ty", ""):
                self.bind(p, ("record",), env)
            else:
                self.bind(p, ("param", nm or str(i)), env)
        out = []
        for v, st in self.call_body(self.f, env, St(), 0):
            out.append((st.guards, st.actions, self.exit_class(v, st), st.type, st.buf))
        return out

    def call_body(self, f, env, st, depth):
        """evaluate a function body; -> [(return value, st)]"""
        res = []
        for v, e2, s2 in self.ev(f["hir"], env, st, depth):
            if isinstance(v, tuple) and v and v[0] == "RET":
                v = v[1]
            res.append((v, s2))
        return res

    # ------------------------------------------------------------------ binding
    def bind(self, p, v, env):
        k = p["k"]
        if k == "wild":
            return True
        if k == "bind":
            env[p["id"]] = v
            if p.get("sub"):
                return self.bind(p["sub"], v, env)
            return True
        if k in ("pref", "pderef"):
            return self.bind(p["pat"], v, env)
        if k == "ptuple":
            if v[0] == "tuple" and len(v[1]) == len(p["pats"]):
                return all(self.bind(sp, sv, env) for sp, sv in zip(p["pats"], v[1]))
            raise Unrec("tuple pattern")
        if k == "pstruct":
            for fp in p["fields"]:
                self.bind(fp["pat"], self.field(v, fp["name"]), env)
            return True
        raise Unrec("pattern %s in a binding" % k)

    def field(self, v, name):
        if v == ("record",):
            return {"hdr": ("hdr",), "data": ("data",)}.get(name) or self.unrec("field record.%s" % name)
        if v == ("hdr",):
            if name == "record_type":
                return ("rtv", "RT")
            return ("hdrfield", name)
        if v[0] == "hdrval":
            if name == "len":
                return v[1]
            return ("hdrfield", name) if v[2] == "record.hdr" else self.unrec("header field")
        if v == ("self",):
            return ("selffield", name)
        if v[0] == "errval" and name == "code":
            return ("errkind", v[3])
        if v[0] == "rtv" and name == "0":
            return ("rtnum", v[1])
        if v[0] == "rtconst" and name == "0":
            return ("int", v[2]) if len(v) > 2 else self.unrec("constant value")
        raise Unrec("field %s of %s" % (name, v[0]))

    def unrec(self, msg):
        raise Unrec(msg)

    # ------------------------------------------------------------------ evaluation: -> [(value, env, st)]
    def ev(self, e, env, st, depth):
        e = strip(e)
        if e is None:
            return [(("unit",), env, st)]
        k = e["k"]
        m = getattr(self, "ev_" + k, None)
        if m is None:
            raise Unrec("expression kind " + k)
        return m(e, env, st, depth)

    def ev1(self, e, env, st, depth):
        """evaluate an expression that cannot fork (pure leaves)"""
        r = self.ev(e, env, st, depth)
        if len(r) != 1:
            raise Unrec("forking expression in a pure position")
        return r[0][0]

    def seq_args(self, exprs, env, st, depth):
        """evaluate expressions left to right over all worlds: -> [([values], st)]"""
        worlds = [([], st)]
        for x in exprs:
            nw = []
            for vals, s in worlds:
                for v, _, s2 in self.ev(x, env, s, depth):
                    if isinstance(v, tuple) and v and v[0] == "RET":
                        raise Unrec("return inside an argument")
                    nw.append((vals + [v], s2))
            worlds = nw
        return worlds

    def ev_local(self, e, env, st, depth):
        if e["id"] not in env:
            raise Unrec("unbound local " + e["name"])
        return [(env[e["id"]], env, st)]

    def ev_lit(self, e, env, st, depth):
        if "v" in e:
            return [(("int", e["v"]), env, st)]
        if "b" in e:
            return [(("bool", e["b"]), env, st)]
        return [(("lit",), env, st)]

    def ev_path(self, e, env, st, depth):
        p = e.get("resolved") or e["path"]
        dk = e.get("dk", "")
        if p == NONE:
            return [(("opt", None), env, st)]
        if p.startswith("tls_record::TlsRecordType::") and dk.startswith("AssocConst"):
            # named by value: the identity of a content type is its code point
            return [(("rtconst", rt_of_value(e["val"]) if e.get("val") is not None else rt_name(p), e.get("val")), env, st)]
        if p.startswith("nom::error::ErrorKind::"):
            return [(("errkindc", rt_name(p)), env, st)]
        if p.startswith("nom::internal::Needed::"):
            return [(("needed",), env, st)]
        if "val" in e:
            return [(("int", e["val"]), env, st)]
        if dk.startswith("Ctor"):
            return [(("ctor", p), env, st)]
        if dk in ("Fn", "AssocFn"):
            return [(("fnref", p, bool(e.get("resolved_local") if e.get("resolved") else e.get("local"))), env, st)]
        raise Unrec("path " + p)

    def ev_addrof(self, e, env, st, depth):
        return self.ev(e["x"], env, st, depth)

    def ev_un(self, e, env, st, depth):
        if e["op"] == "*":
            return self.ev(e["a"], env, st, depth)
        if e["op"] == "!":
            out = []
            for v, _, s in self.ev(e["a"], env, st, depth):
                out.append((self.b_not(v), env, s))
            return out
        raise Unrec("unary " + e["op"])

    def ev_cast(self, e, env, st, depth):
        out = []
        for v, _, s in self.ev(e["x"], env, st, depth):
            if v[0] == "len":
                out.append((("lencast", v, e["ty"]), env, s))
            elif v[0] == "int":
                out.append((v, env, s))
            else:
                raise Unrec("cast of " + v[0])
        return out

    def ev_tup(self, e, env, st, depth):
        if not e["xs"]:
            return [(("unit",), env, st)]
        return [(("tuple", vals), env, s) for vals, s in self.seq_args(e["xs"], env, st, depth)]

    def ev_array(self, e, env, st, depth):
        if not e["xs"]:
            return [(("empty",), env, st)]
        out = []
        for vals, s in self.seq_args(e["xs"], env, st, depth):
            if all(v[0] == "rtconst" for v in vals):
                out.append((("rtarray", tuple(v[1] for v in vals)), env, s))
            else:
                raise Unrec("array literal")
        return out

    def ev_field(self, e, env, st, depth):
        out = []
        for v, _, s in self.ev(e["x"], env, st, depth):
            fv = self.field(v, e["name"])
            if fv[0] == "selffield":
                fv = self.read_self(fv[1], s)
            out.append((fv, env, s))
        return out

    def read_self(self, name, st):
        if name == "current_record_type":
            return ("typestate",)
        if name == "record_defrag_buffer":
            return ("bufref",)
        raise Unrec("self.%s" % name)

    def ev_closure(self, e, env, st, depth):
        return [(("closure", e, dict(env)), env, st)]

    def ev_struct(self, e, env, st, depth):
        rp = e["res"].get("path", "")
        if rp.startswith("core::ops::range::Range") and e.get("base") is None:
            names = [f["name"] for f in e["fields"]]
            out = []
            for vals, s in self.seq_args([f["e"] for f in e["fields"]], env, st, depth):
                fv = dict(zip(names, vals))
                out.append((("range", fv.get("start"), fv.get("end"), "Inclusive" in rp), env, s))
            return out
        if rp == "tls_record::TlsRecordHeader":
            fs = {f["name"]: f["e"] for f in e["fields"]}
            base = e.get("base")
            if set(fs) == {"len"} and base is not None:
                out = []
                for bv, _, s in self.ev(base, env, st, depth):
                    for lv, _, s2 in self.ev(fs["len"], env, s, depth):
                        out.append((("hdrval", lv, "record.hdr" if bv == ("hdr",) else "other"), env, s2))
                return out
            if set(fs) == {"record_type", "version", "len"} and base is None:
                out = []
                for vals, s in self.seq_args([fs["record_type"], fs["version"], fs["len"]], env, st, depth):
                    rt_ok = vals[0] == ("rtv", "RT") or (vals[0] == ("rtv", "CUR") and s.decided.get("type_mismatch") is False)
                    same = rt_ok and vals[1] == ("hdrfield", "version")
                    out.append((("hdrval", vals[2], "record.hdr" if same else "other"), env, s))
                return out
            raise Unrec("record header built field by field")
        if rp == "tls_record::TlsRawRecord":
            fs = {f["name"]: f["e"] for f in e["fields"]}
            if e.get("base") is None and set(fs) == {"hdr", "data"}:
                out = []
                for vals, s in self.seq_args([fs["hdr"], fs["data"]], env, st, depth):
                    if vals == [("hdr",), ("data",)]:
                        out.append((("record",), env, s))   # the record, taken apart and put together again
                    else:
                        raise Unrec("a record other than the caller's is built")
                return out
            raise Unrec("raw record literal")
        if rp == RP:
            fs = {f["name"]: f["e"] for f in e["fields"]}
            if e.get("base") is not None or set(fs) != {"record_defrag_buffer", "current_record_type"}:
                raise Unrec("parser value with unexpected fields")
            out = []
            for vals, s in self.seq_args([fs["record_defrag_buffer"], fs["current_record_type"]], env, st, depth):
                out.append((("parserval", vals[0], vals[1]), env, s))
            return out
        if rp.startswith("core::ops::range::Range"):
            raise Unrec("range")
        raise Unrec("struct literal " + rp)

    # ---- booleans as symbolic trees: ("bool", b) | ("atom", name, polarity) | ("or", a, b) | ("and", a, b)
    def b_not(self, v):
        if v[0] == "bool":
            return ("bool", not v[1])
        if v[0] == "atom":
            return ("atom", v[1], not v[2])
        if v[0] == "rtset":
            return ("rtset", v[1], not v[2])
        if v[0] in ("or", "and"):
            return ("and" if v[0] == "or" else "or", self.b_not(v[1]), self.b_not(v[2]))
        raise Unrec("negation of " + v[0])

    def ev_bin(self, e, env, st, depth):
        op = e["op"]
        out = []
        if op in ("||", "&&"):
            for a, _, s in self.ev(e["a"], env, st, depth):
                for b, _, s2 in self.ev(e["b"], env, s, depth):
                    out.append((self.b_join("or" if op == "||" else "and", a, b), env, s2))
            return out
        for (a, b), s in [((vals[0], vals[1]), s) for vals, s in self.seq_args([e["a"], e["b"]], env, st, depth)]:
            out.append((self.compare(op, a, b, s), env, s))
        return out

    def b_join(self, k, a, b):
        if a[0] == "bool":
            if k == "or":
                return a if a[1] else b
            return b if a[1] else a
        if b[0] == "bool":
            return self.b_join(k, b, a)
        if k == "or" and a[0] == "rtset" and b[0] == "rtset" and a[2] and b[2]:
            return ("rtset", tuple(sorted(set(a[1]) | set(b[1]))), True)
        if k == "and" and a[0] == "rtset" and b[0] == "rtset" and not a[2] and not b[2]:
            return ("rtset", tuple(sorted(set(a[1]) | set(b[1]))), False)
        return (k, a, b)

    def compare(self, op, a, b, st):
        if op not in ("==", "!=", "<", "<=", ">", ">="):
            raise Unrec("operator " + op)
        neg = op == "!="
        if op in ("==", "!="):
            r = self.equal(a, b, st)
            return self.b_not(r) if neg else r
        # order comparisons: sizes against a constant
        if a[0] == "int" and b[0] in ("len",):
            a, b = b, a
            op = {"<": ">", "<=": ">=", ">": "<", ">=": "<="}[op]
        if a[0] == "len" and b[0] == "int":
            return self.size_atom(op, a, b[1])
        if a[0] == "satdiff" and b[0] == "len":
            a, b = b, a
            op = {"<": ">", "<=": ">=", ">": "<", ">=": "<="}[op]
        if a[0] == "len" and b[0] == "satdiff":
            # x >= K.saturating_sub(y)  is  x + y >= K  (and x < .. is x + y < K); the strict/non-strict duals are not
            if op not in (">=", "<"):
                raise Unrec("comparison %s against a saturating difference" % op)
            return self.size_atom(op, ("len", tuple(a[1]) + tuple(b[2]), "sat"), b[1])
        if a[0] == "int" and b[0] == "int":
            return ("bool", {"<": a[1] < b[1], "<=": a[1] <= b[1], ">": a[1] > b[1], ">=": a[1] >= b[1]}[op])
        if a[0] == "int" and b[0] == "rtnum":
            a, b = b, a
            op = {"<": ">", "<=": ">=", ">": "<", ">=": "<="}[op]
        if a == ("rtnum", "RT") and b[0] == "int":
            # an order test of the content-type byte: the set of code points it accepts
            f = {"<": lambda x: x < b[1], "<=": lambda x: x <= b[1], ">": lambda x: x > b[1], ">=": lambda x: x >= b[1]}[op]
            return rt_set_of([x for x in range(256) if f(x)])
        raise Unrec("comparison %s of %s and %s" % (op, a[0], b[0]))

    def size_atom(self, op, ln, k):
        parts, mode = tuple(sorted(ln[1])), ln[2]
        if mode == "wrap":
            raise Unrec("size check on a wrapping sum (overflow would pass the check)")
        # canonical: too_large[>=|>, k] over the sum of the named parts (overflow counts as too large for sat / checked sums)
        pos = op in (">=", ">")
        cop = {">=": ">=", ">": ">", "<": ">=", "<=": ">"}[op]
        name = "too_large[%s,%d]" % (cop, k) if parts == ("B", "D") else "size(%s)[%s,%d]" % ("+".join(parts), cop, k)
        return ("atom", name, pos)

    def equal(self, a, b, st):
        for x, y in ((a, b), (b, a)):
            if x[0] == "rtnum" and y[0] == "int":
                return ("rtset", (rt_of_value(y[1]),), True) if x[1] == "RT" else self.unrec("comparison of the stored type with a constant")
            if x[0] == "rtv" and y[0] == "rtconst":
                return ("rtset", (y[1],), True) if x[1] == "RT" else self.unrec("comparison of the stored type with a constant")
            if x[0] == "rtv" and y[0] == "rtv":
                if x[1] == y[1]:
                    return ("bool", True)
                return ("atom", "type_mismatch", False)
            if x[0] == "errkind" and y[0] == "errkindc":
                if x[1] in ("Complete", "other"):
                    return ("bool", x[1] == y[1]) if y[1] == "Complete" else (("bool", False) if x[1] == "Complete" else self.unrec("test of an error kind other than Complete"))
                return ("bool", x[1] == y[1])
            if x[0] == "opt" and y[0] == "typestate":
                # Some(rt) == self.current_record_type / None == ...
                ts = self.type_value(st)
                if ts is None:
                    if x[1] is None:
                        return ("atom", "in_progress", False)
                    raise Unrec("comparison with the stored type before testing that one is stored")
                return self.equal(x, ts, st)
            if x[0] == "opt" and y[0] == "opt":
                if x[1] is None or y[1] is None:
                    return ("bool", x[1] is None and y[1] is None)
                return self.equal(x[1], y[1], st)
            if x[0] == "int" and y[0] == "int":
                return ("bool", x[1] == y[1])
        raise Unrec("equality of %s and %s" % (a[0], b[0]))

    def type_value(self, st):
        """the Option<TlsRecordType> held by the state, if determined on this path"""
        if st.type == "T0":
            return None
        if st.type == "none":
            return ("opt", None)
        return ("opt", ("rtv", st.type[1]))

    # ---- splitting on a symbolic boolean
    def split(self, v, st):
        """-> [(bool, st)]"""
        if v[0] == "bool":
            return [(v[1], st)]
        if v[0] == "atom":
            name, pol = v[1], v[2]
            if name == "in_progress" and st.type != "T0":
                return [((st.type != "none") == pol, st)]
            if name in st.decided:
                return [(st.decided[name] == pol, st)]
            out = []
            for val in (True, False):
                s2 = st.decide(name, val)
                if name == "in_progress":
                    s2 = s2.with_(type=("some", "CUR") if val else "none")
                out.append((val == pol, s2))
            return out
        if v[0] == "rtset":
            return self.split(("atom", "type in {%s}" % ",".join(v[1]), v[2]), st)
        if v[0] in ("or", "and"):
            out = []
            for a, s in self.split(v[1], st):
                if (v[0] == "or" and a) or (v[0] == "and" and not a):
                    out.append((a, s))
                else:
                    out.extend(self.split(v[2], s))
            return out
        raise Unrec("condition " + v[0])

    # ------------------------------------------------------------------ control flow
    def ev_block(self, e, env, st, depth):
        worlds = [(dict(env), st)]
        done = []
        for s_ in e["stmts"]:
            nw = []
            for env_, st_ in worlds:
                for v, env2, st2 in self.stmt(s_, env_, st_, depth):
                    if isinstance(v, tuple) and v and v[0] == "RET":
                        done.append((v, env, st2))
                    else:
                        nw.append((env2, st2))
            worlds = nw
        out = list(done)
        for env_, st_ in worlds:
            if e["expr"] is None:
                out.append((("unit",), env, st_))
            else:
                for v, _, st2 in self.ev(e["expr"], env_, st_, depth):
                    out.append((v, env, st2))
        return out

    def stmt(self, s, env, st, depth):
        k = s["k"]
        if k == "item":
            return [(("unit",), env, st)]
        if k == "let":
            if s.get("init") is None:
                raise Unrec("let without initialiser")
            out = []
            for v, _, st2 in self.ev(s["init"], env, st, depth):
                if isinstance(v, tuple) and v and v[0] == "RET":
                    out.append((v, env, st2))
                    continue
                if s.get("els") is not None:
                    for ok, env2, st3 in self.pmatch_worlds(s["pat"], v, env, st2):
                        if ok:
                            out.append((("unit",), env2, st3))
                        else:
                            for v2, _, st4 in self.ev(s["els"], env, st3, depth):
                                if not (isinstance(v2, tuple) and v2 and v2[0] == "RET"):
                                    raise Unrec("let-else branch does not diverge")
                                out.append((v2, env, st4))
                    continue
                env2 = dict(env)
                self.bind(s["pat"], v, env2)
                out.append((("unit",), env2, st2))
            return out
        if k in ("semi", "sexpr"):
            return [(v if (isinstance(v, tuple) and v and v[0] == "RET") else ("unit",), env, st2) for v, _, st2 in self.ev(s["e"], env, st, depth)]
        raise Unrec("statement " + k)

    def ev_ret(self, e, env, st, depth):
        out = []
        for v, _, s in (self.ev(e["x"], env, st, depth) if e.get("x") is not None else [(("unit",), env, st)]):
            out.append((v if (isinstance(v, tuple) and v and v[0] == "RET") else ("RET", v), env, s))
        return out

    def ev_if(self, e, env, st, depth):
        c = strip(e["c"])
        out = []
        if c["k"] == "letexpr":
            for v, _, s in self.ev(c["init"], env, st, depth):
                for ok, env2, s2 in self.pmatch_worlds(c["pat"], v, env, s):
                    if ok:
                        out.extend(self.ev(e["t"], env2, s2, depth))
                    elif e.get("f") is not None:
                        out.extend(self.ev(e["f"], env, s2, depth))
                    else:
                        out.append((("unit",), env, s2))
            return out
        for v, _, s in self.ev(c, env, st, depth):
            for b, s2 in self.split(v, s):
                if b:
                    out.extend(self.ev(e["t"], env, s2, depth))
                elif e.get("f") is not None:
                    out.extend(self.ev(e["f"], env, s2, depth))
                else:
                    out.append((("unit",), env, s2))
        return out

    def ev_match(self, e, env, st, depth):
        if is_try(e) is not None:
            inner = is_try(e)
            out = []
            for v, _, s in self.ev(inner, env, st, depth):
                # `x?`: Err returns, Ok yields the value
                if v[0] == "presult":
                    if v[2] == ("Ok",):
                        out.append((("okval", v[1]), env, s))
                    else:
                        out.append((("RET", v), env, s))
                elif v[0] == "result_ok":
                    out.append((v[1], env, s))
                elif v[0] == "result_err":
                    out.append((("RET", v), env, s))
                else:
                    raise Unrec("? on " + v[0])
            return out
        out = []
        for v, _, s in self.ev(e["scrut"], env, st, depth):
            worlds = [s]
            for arm in e["arms"]:
                nxt = []
                for s_ in worlds:
                    for ok, env2, s2 in self.pmatch_worlds(arm["pat"], v, env, s_):
                        if not ok:
                            nxt.append(s2)
                            continue
                        if arm.get("guard") is not None:
                            for gv, _, s3 in self.ev(arm["guard"], env2, s2, depth):
                                gv = self.absorb_overflow(gv, v)
                                for b, s4 in self.split(gv, s3):
                                    if b:
                                        out.extend(self.ev(arm["body"], env2, s4, depth))
                                    else:
                                        nxt.append(s4)
                        else:
                            out.extend(self.ev(arm["body"], env2, s2, depth))
                worlds = nxt
            for s_ in worlds:
                raise Unrec("match with no arm for some case")
        return out

    def absorb_overflow(self, gv, scrut):
        return gv

    def pmatch_worlds(self, p, v, env, st):
        """match pattern p against abstract value v: -> [(matched?, env', st')] (forks when the value is not determined)"""
        k = p["k"]
        if k in ("pref", "pderef"):
            return self.pmatch_worlds(p["pat"], v, env, st)
        if k == "wild":
            return [(True, env, st)]
        if k == "bind":
            env2 = dict(env)
            env2[p["id"]] = v
            if p.get("sub"):
                return self.pmatch_worlds(p["sub"], v, env2, st)
            return [(True, env2, st)]
        if k == "por" and all(sp["k"] == "pexpr" and sp["e"]["k"] in ("path", "lit") for sp in p["pats"]):
            # A | B | ... over constants: one decision (the value is one of them), not one decision per alternative
            c = None
            for sp in p["pats"]:
                ci = self.equal(v, self.ev1(sp["e"], env, st, 0), st)
                c = ci if c is None else self.b_join("or", c, ci)
            return [(b, env, s) for b, s in self.split(c, st)]
        if k == "por":
            out = []
            rest = [st]
            for sp in p["pats"]:
                nxt = []
                for s_ in rest:
                    for ok, env2, s2 in self.pmatch_worlds(sp, v, env, s_):
                        if ok:
                            out.append((True, env2, s2))
                        else:
                            nxt.append(s2)
                rest = nxt
            return out + [(False, env, s_) for s_ in rest]
        if k == "pexpr":
            pe = p["e"]
            pv = self.ev1(pe, env, st, 0) if pe["k"] in ("path", "lit") else self.unrec("pattern expression")
            if pv == ("opt", None):
                return self.match_option(v, None, None, env, st)
            if pv[0] == "bool" and v[0] in ("bool", "atom", "rtset", "or", "and"):
                return [(b == pv[1], env, s) for b, s in self.split(v, st)]
            c = self.equal(v, pv, st)
            return [(b, env, s) for b, s in self.split(c, st)]
        if k == "ptuplestruct":
            path = p["res"]["path"]
            if path == SOME:
                return self.match_option(v, "some", p["pats"][0] if p["pats"] else None, env, st)
            if path in (OK, ERR):
                return self.match_result(v, path, p["pats"][0] if p["pats"] else None, env, st)
            if path.startswith(NOMERR):
                return self.match_nomerr(v, rt_name(path), p["pats"][0] if p["pats"] else None, env, st)
            raise Unrec("pattern " + path)
        if k == "ptuple":
            if v[0] == "tuple" and len(v[1]) == len(p["pats"]):
                worlds = [(True, env, st)]
                for sp, sv in zip(p["pats"], v[1]):
                    nw = []
                    for ok, env2, s2 in worlds:
                        if not ok:
                            nw.append((False, env, s2))
                            continue
                        nw.extend(self.pmatch_worlds(sp, sv, env2, s2))
                    worlds = nw
                return worlds
            raise Unrec("tuple pattern against " + v[0])
        if k == "pstruct":
            env2 = dict(env)
            self.bind(p, v, env2)
            return [(True, env2, st)]
        raise Unrec("pattern kind " + k)

    def match_option(self, v, want, sub, env, st):
        if v[0] == "typestate":
            out = []
            for inprog, s in self.split(("atom", "in_progress", True), st):
                if want is None:
                    out.append((not inprog, env, s))
                elif not inprog:
                    out.append((False, env, s))
                else:
                    out.extend(self.pmatch_worlds(sub, ("rtv", s.type[1]), env, s) if sub is not None else [(True, env, s)])
            return out
        if v[0] == "opt":
            if want is None:
                return [(v[1] is None, env, st)]
            if v[1] is None:
                return [(False, env, st)]
            return self.pmatch_worlds(sub, v[1], env, st) if sub is not None else [(True, env, st)]
        if v[0] == "optlen":
            # checked sum: None on overflow.  Overflow implies "too large" for any bound below usize::MAX, so the
            # overflow case is folded into the size atom: Some(x) binds the exact sum and the case split is left to
            # the test of x that must follow (a Some arm without such a test is not read)
            if want is None:
                raise Unrec("overflow tested separately from the size bound")
            self._optlen_pending = True
            return self.pmatch_worlds(sub, ("len", v[1], "chk"), env, st) if sub is not None else self.unrec("checked sum not bound")
        raise Unrec("Option pattern against " + v[0])

    def match_result(self, v, path, sub, env, st):
        is_ok = path == OK
        if v[0] == "presult":
            if (v[2] == ("Ok",)) != is_ok:
                return [(False, env, st)]
            inner = ("okval", v[1]) if is_ok else ("nomerrv", v[1], v[2][1])
            return self.pmatch_worlds(sub, inner, env, st) if sub is not None else [(True, env, st)]
        if v[0] in ("result_ok", "result_err"):
            if (v[0] == "result_ok") != is_ok:
                return [(False, env, st)]
            return self.pmatch_worlds(sub, v[1], env, st) if sub is not None else [(True, env, st)]
        raise Unrec("Result pattern against " + v[0])

    def match_nomerr(self, v, variant, sub, env, st):
        if v[0] == "nomerrv":
            inner = v[2]
            if inner[0] != variant:
                return [(False, env, st)]
            if sub is None or sub["k"] == "wild":
                return [(True, env, st)]
            payload = ("errval", v[1], inner[0], inner[1]) if len(inner) > 1 else ("needed",)
            return self.pmatch_worlds(sub, payload, env, st)
        if v[0] == "nomerr":
            if v[1] != variant:
                return [(False, env, st)]
            if sub is None or sub["k"] == "wild":
                return [(True, env, st)]
            return self.pmatch_worlds(sub, ("errval", "made", v[1], v[2]), env, st)
        raise Unrec("nom::Err pattern against " + v[0])

    # ------------------------------------------------------------------ assignments, calls
    def ev_assign(self, e, env, st, depth):
        a = strip(e["a"])
        out = []
        for v, _, s in self.ev(e["b"], env, st, depth):
            if a["k"] == "field" and self.ev1(a["x"], env, s, depth) == ("self",):
                out.append((("unit",), env, self.set_field(a["name"], v, s)))
            elif a["k"] == "un" and a["op"] == "*" and self.ev1(a["a"], env, s, depth) == ("self",):
                if v[0] != "parserval":
                    raise Unrec("*self assigned a value the analysis cannot read")
                s2 = self.set_field("record_defrag_buffer", v[1], s)
                s2 = self.set_field("current_record_type", v[2], s2)
                out.append((("unit",), env, s2))
            else:
                raise Unrec("assignment to " + a["k"])
        return out

    def set_field(self, name, v, st):
        if name == "current_record_type":
            if v == ("opt", None):
                return st.with_(type="none").act("SetType(None)")
            if v[0] == "opt" and v[1] is not None and v[1][0] == "rtv":
                return st.with_(type=("some", v[1][1])).act("SetType(Some(%s))" % {"RT": "record.type", "CUR": "current"}[v[1][1]])
            if v[0] == "typestate":
                return st
            raise Unrec("value stored in current_record_type")
        if name == "record_defrag_buffer":
            if v[0] == "buf":
                if v[1] == ():
                    return st.with_(buf=()).act("Clear")
                return st.with_(buf=v[1]).act("SetBuf(%s)" % "+".join(v[1]))
            raise Unrec("value stored in record_defrag_buffer")
        raise Unrec("assignment to self.%s" % name)

    def ev_call(self, e, env, st, depth):
        f = strip(e["f"])
        fp = path_of(f)
        args = e["args"]
        if fp == "tls_record::parse_tls_record_with_header" and len(args) == 2:
            out = []
            for vals, s in self.seq_args(args, env, st, depth):
                out.extend(self.do_parse(vals[0], vals[1], env, s))
            return out
        if fp in (SOME, OK, ERR) or (fp or "").startswith(NOMERR):
            out = []
            for vals, s in self.seq_args(args, env, st, depth):
                v = vals[0] if vals else ("unit",)
                if fp == SOME:
                    out.append((("opt", v), env, s))
                elif fp == OK:
                    out.append((("result_ok", v), env, s))
                elif fp == ERR:
                    out.append((("result_err", v), env, s))
                else:
                    var = rt_name(fp)
                    if var == "Incomplete":
                        out.append((("nomerr", "Incomplete", None), env, s))
                    elif v[0] == "nomerror":
                        out.append((("nomerr", var, v[1]), env, s))
                    elif v[0] == "errval":
                        out.append((("nomerrv_re", var, v), env, s))
                    else:
                        raise Unrec("payload of nom::Err::" + var)
            return out
        if fp in ("nom::error::Error::<I>::new", "nom::error::make_error", "nom::error::ParseError::from_error_kind") and len(args) == 2:
            kv = self.ev1(args[1], env, st, depth)
            if kv[0] != "errkindc":
                raise Unrec("error kind")
            return [(("nomerror", kv[1]), env, st)]
        if fp in ("alloc::vec::Vec::<T>::new",):
            return [(("buf", ()), env, st)]
        if fp == "core::ops::range::RangeInclusive::<Idx>::new" and len(args) == 2:
            return [(("range", vals[0], vals[1], True), env, s) for vals, s in self.seq_args(args, env, st, depth)]
        if fp and (fp.endswith("Default::default") or fp.endswith("core::default::Default>::default")):
            ty = e.get("ty", "")
            if ty.startswith("alloc::vec::Vec<"):
                return [(("buf", ()), env, st)]
            if ty.startswith("core::option::Option<"):
                return [(("opt", None), env, st)]
            if ty == RP or ty.endswith("TlsRecordsParser"):
                return self.call_default(env, st, depth)
            raise Unrec("Default::default() of " + ty)
        if fp and fp.startswith("core::panicking::"):
            return [(("RET", ("panic", rt_name(fp))), env, st)]
        if f["k"] == "path" and f.get("dk") in ("Fn", "AssocFn"):
            target = f.get("resolved") or f["path"]
            local = f.get("resolved_local") if f.get("resolved") else f.get("local")
            if local:
                out = []
                for vals, s in self.seq_args(args, env, st, depth):
                    out.extend((v, env, s2) for v, s2 in self.call_local(target, vals, s, depth))
                return out
            if target.endswith("::default") and (e.get("ty") == RP or e.get("ty", "").endswith("TlsRecordsParser")):
                return self.call_default(env, st, depth)
        if f["k"] == "local":
            fv = env.get(f["id"])
            if fv and fv[0] == "closure":
                out = []
                for vals, s in self.seq_args(args, env, st, depth):
                    out.extend((v, env, s2) for v, s2 in self.apply(fv, vals, s, depth))
                return out
        raise Unrec("call of " + str(fp))

    def call_default(self, env, st, depth):
        for ff in self.F.hir_fns():
            if ff.get("impl_trait_path") == "core::default::Default" and ff.get("impl_self") == RP and ff.get("name") == "default":
                return [(v, env, s2) for v, s2 in self.call_body(ff, {}, st, depth + 1)]
        raise Unrec("Default for TlsRecordsParser not found")

    def call_local(self, target, vals, st, depth):
        if depth > self.max_depth:
            raise Unrec("call depth")
        callee = self.F.fn(target)
        if callee is None or "hir" not in callee:
            raise Unrec("no body for " + target)
        env2 = {}
        if len(callee["params"]) != len(vals):
            raise Unrec("arity of " + target)
        for p, v in zip(callee["params"], vals):
            self.bind(p, v, env2)
        return self.call_body(callee, env2, st, depth + 1)

    def apply(self, fv, vals, st, depth):
        if fv[0] == "closure":
            clo, cenv = fv[1], dict(fv[2])
            for p, v in zip(clo["params"], vals):
                self.bind(p, v, cenv)
            res = []
            for v, _, s in self.ev(clo["body"], cenv, st, depth + 1):
                res.append((v[1] if (isinstance(v, tuple) and v and v[0] == "RET") else v, s))
            return res
        if fv[0] == "fnref":
            if fv[2]:
                return self.call_local(fv[1], vals, st, depth)
            raise Unrec("foreign function value " + fv[1])
        if fv[0] == "ctor":
            if fv[1] == SOME:
                return [(("opt", vals[0]), st)]
            raise Unrec("constructor value " + fv[1])
        raise Unrec("call of a non-function")

    def do_parse(self, a0, a1, env, st):
        if a0 == ("data",):
            kind = "data" if a1 == ("hdr",) else "data,hdr=?"
        elif a0 == ("bufref",):
            cur = tuple(sorted(self.len_parts(st.buf)))
            if a1[0] == "hdrval" and a1[2] == "record.hdr" and a1[1][0] == "lencast" and a1[1][2] == "u16" and tuple(sorted(a1[1][1][1])) == cur:
                kind = "buf"
            else:
                kind = "buf,hdr=?"
        else:
            raise Unrec("parser applied to " + a0[0])
        st = st.act("Parse(%s)" % kind)
        out = []
        for oc in OUTCOMES:
            s2 = st.with_(guards=st.guards + ("parse(%s)=%s" % (kind, oc_str(oc)),))
            out.append((("presult", kind, oc), env, s2))
        return out

    def len_parts(self, buf):
        return tuple({"B0": "B", "D": "D"}.get(x, x) for x in buf)

    def ev_mcall(self, e, env, st, depth):
        name = e["name"]
        p = e.get("path") or ""
        out = []
        for rv, _, s in self.ev(e["recv"], env, st, depth):
            # methods of self (helpers, delegation): evaluated
            if rv == ("self",):
                target = e.get("resolved") or p
                local = e.get("resolved_local") if e.get("resolved") else e.get("local")
                if not local:
                    raise Unrec("method %s on self" % name)
                for vals, s2 in self.seq_args(e["args"], env, s, depth):
                    out.extend((v, env, s3) for v, s3 in self.call_local(target, [("self",)] + vals, s2, depth))
                continue
            if rv == ("bufref",):
                for vals, s2 in self.seq_args(e["args"], env, s, depth):
                    if p == "alloc::vec::Vec::<T, A>::len" or name == "len":
                        out.append((("len", self.len_parts(s2.buf), "exact"), env, s2))
                    elif name == "is_empty":
                        raise Unrec("emptiness of the buffer is not a state the reference protocol tests")
                    elif p == "alloc::vec::Vec::<T, A>::clear":
                        out.append((("unit",), env, s2.with_(buf=()).act("Clear")))
                    elif p == "alloc::vec::Vec::<T, A>::extend_from_slice" and vals == [("data",)]:
                        out.append((("unit",), env, s2.with_(buf=s2.buf + ("D",)).act("Extend(record.data)")))
                    elif p in ("alloc::vec::Vec::<T, A>::truncate",) and vals == [("int", 0)]:
                        out.append((("unit",), env, s2.with_(buf=()).act("Clear")))
                    else:
                        raise Unrec("buffer method %s(%s)" % (name, ",".join(v[0] for v in vals)))
                continue
            if rv == ("data",):
                if name == "len":
                    out.append((("len", ("D",), "exact"), env, s))
                    continue
                if name in ("to_vec", "to_owned"):
                    out.append((("buf", ("D",)), env, s))
                    continue
                raise Unrec("method %s on record.data" % name)
            if rv[0] == "len":
                for vals, s2 in self.seq_args(e["args"], env, s, depth):
                    o = vals[0] if vals else None
                    if name in ("saturating_add", "checked_add", "wrapping_add") and o is not None and o[0] == "len":
                        parts = tuple(rv[1]) + tuple(o[1])
                        if name == "checked_add":
                            out.append((("optlen", parts), env, s2))
                        else:
                            out.append((("len", parts, "sat" if name == "saturating_add" else "wrap"), env, s2))
                    else:
                        raise Unrec("arithmetic %s on a length" % name)
                continue
            if rv[0] == "int" and name == "saturating_sub":
                for vals, s2 in self.seq_args(e["args"], env, s, depth):
                    if vals[0][0] != "len":
                        raise Unrec("saturating_sub of " + vals[0][0])
                    out.append((("satdiff", rv[1], tuple(vals[0][1])), env, s2))
                continue
            if rv[0] == "range" and name == "contains":
                for vals, s2 in self.seq_args(e["args"], env, s, depth):
                    lo, hi, incl = rv[1], rv[2], rv[3]
                    if vals[0] != ("rtnum", "RT") or (lo is not None and lo[0] != "int") or (hi is not None and hi[0] != "int"):
                        raise Unrec("range test of " + vals[0][0])
                    lo_ = 0 if lo is None else lo[1]
                    hi_ = 255 if hi is None else (hi[1] if incl else hi[1] - 1)
                    out.append((rt_set_of([x for x in range(256) if lo_ <= x <= hi_]), env, s2))
                continue
            if rv[0] == "rtarray" and name == "contains":
                for vals, s2 in self.seq_args(e["args"], env, s, depth):
                    if vals[0] != ("rtv", "RT"):
                        raise Unrec("contains of " + vals[0][0])
                    out.append((("rtset", tuple(sorted(rv[1])), True), env, s2))
                continue
            if rv[0] == "optlen" and name in ("map_or", "is_some_and", "map_or_else"):
                # checked sum tested through a closure: overflow (None) must give the answer "too large" gives
                for vals, s2 in self.seq_args(e["args"], env, s, depth):
                    fv = vals[-1]
                    dflt = vals[0] if name == "map_or" else ("bool", False)
                    if name == "map_or_else":
                        raise Unrec("map_or_else on a checked sum")
                    for r_, s3 in self.apply(fv, [("len", rv[1], "chk")], s2, depth):
                        if not (r_[0] == "atom" and r_[1].startswith("too_large") and dflt == ("bool", r_[2])):
                            raise Unrec("overflow of the checked sum is not treated as too large")
                        out.append((r_, env, s3))
                continue
            if rv[0] in ("presult", "result_ok", "result_err") and name in ("is_ok", "is_err"):
                good = (rv[0] == "presult" and rv[2] == ("Ok",)) or rv[0] == "result_ok"
                out.append((("bool", good == (name == "is_ok")), env, s))
                continue
            if rv[0] == "typestate":
                if name in ("is_some", "is_none"):
                    out.append((("atom", "in_progress", name == "is_some"), env, s))
                    continue
                raise Unrec("method %s on the stored type" % name)
            if rv[0] in ("presult", "result_ok", "result_err") and name in ("map_err",):
                fvs = self.seq_args(e["args"], env, s, depth)
                for vals, s2 in fvs:
                    if rv[0] == "presult" and rv[2] == ("Ok",) or rv[0] == "result_ok":
                        out.append((rv, env, s2))
                        continue
                    errv = ("nomerrv", rv[1], rv[2][1]) if rv[0] == "presult" else rv[1]
                    for v2, s3 in self.apply(vals[0], [errv], s2, depth):
                        out.append((self.rewrap_err(v2, rv), env, s3))
                continue
            if rv[0] in ("presult", "result_ok", "result_err") and name in ("map",):
                raise Unrec("the parsed messages are transformed")
            if rv[0] in ("bool", "atom", "rtset", "or", "and") and name == "not":
                out.append((self.b_not(rv), env, s))
                continue
            if rv[0] == "rtv" and name in ("eq", "ne"):
                for vals, s2 in self.seq_args(e["args"], env, s, depth):
                    r = self.equal(rv, vals[0], s2)
                    out.append((self.b_not(r) if name == "ne" else r, env, s2))
                continue
            raise Unrec("method %s on %s" % (name, rv[0]))
        return out

    def rewrap_err(self, v2, orig):
        """result of map_err: the mapped error back inside Err(..)"""
        if v2[0] == "nomerrv" and orig[0] == "presult" and v2[1:] == (orig[1], orig[2][1]):
            return orig
        return ("result_err", v2)

    # ------------------------------------------------------------------ exits
    def exit_class(self, v, st):
        if v is None or v == ("unit",):
            return "Value(())"
        if v[0] == "panic":
            return "Panic(%s)" % v[1]
        if v[0] == "presult":
            return "Pass(result)"
        if v[0] == "result_ok":
            if v[1][0] == "okval":
                return "Pass(result)"
            return "Ok(?)"
        if v[0] == "result_err":
            x = v[1]
            if x[0] == "nomerrv":
                return "Pass(result)"
            if x[0] == "nomerrv_re":
                # Err::Error(e) / Err::Failure(e) rebuilt around the parser's own error value
                var, ev_ = x[1], x[2]
                if ev_[0] == "errval" and ev_[1] != "made":
                    return "Pass(result)" if var == ev_[2] else "Err(severity changed to %s)" % var
            if x[0] == "nomerr":
                if x[1] == "Incomplete":
                    return "Incomplete"
                return "%s(%s)" % (x[1], x[2])
            return "Err(?)"
        if v[0] in ("bool",):
            return "Value(%s)" % ("true" if v[1] else "false")
        if v[0] == "atom":
            return "Value(%s%s)" % ("" if v[2] else "!", v[1])
        return "Other(%s)" % v[0]


def semantic(paths):
    """canonical, order-insensitive form of the summaries for comparison:
    boolean-valued exits become one path per value; per path: (guards, parse events, final type, final buffer, exit)"""
    out = set()
    for g, acts, ex, ty, buf in paths:
        parses = tuple(a for a in acts if a.startswith("Parse("))
        if ex.startswith("Value(") and ex[6:-1].lstrip("!") not in ("()", "true", "false"):
            atom = ex[6:-1]
            pos = not atom.startswith("!")
            atom = atom.lstrip("!")
            ty_t, ty_f = (("some", "CUR"), "none") if atom == "in_progress" and ty == "T0" else (ty, ty)
            out.add((g + (atom,), parses, ty_t, buf, "Value(%s)" % ("true" if pos else "false")))
            out.add((g + ("!" + atom,), parses, ty_f, buf, "Value(%s)" % ("false" if pos else "true")))
        else:
            out.add((g, parses, ty, buf, ex))
    return out
