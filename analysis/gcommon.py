"""Helpers shared by the grammar-based property checks."""
import re
from .core import Facts, Report, site
from .extract import extract
from .grammar_check import compare, code_seq, spec_seq, semantic_conds
from .grammar_props import TABLE, entries, G, PROJECTION
from .pir import (Ev, Opaque, find_opaque, walk_steps, may_incomplete, incomplete_sites, can_error, consumes_always, seq_str, sym_str, diff)


def load(repo, config="default", want_mir=False):
    facts, info = extract(repo, config, want_mir=want_mir)
    return Facts(facts, info)


def grammar_rules(rp, F, prop, rule="GRAMMAR"):
    """compare every table entry of this property; returns {path: result}"""
    rp.rule(rule, "the canonical wire grammar extracted from the function body (callees inlined, combinators resolved by def-path) "
                  "equals the reference grammar of spec/grammar.py: element order, widths, endianness, streaming/complete mode, "
                  "length-prefix widths, region confinement, repetition, guards (single-variable predicates compared by truth table), dispatch constants, destinations")
    out = {}
    for path, specfn in entries(prop):
        f = F.fn(path)
        s = site(f, path) if f else path
        r = compare(F, path, specfn, project=PROJECTION.get((prop, path)))
        out[path] = r
        rp.functions.update(r.get("called", []))
        short = path.split("::")[-1]
        if r["ok"]:
            n_steps = [0]
            walk_steps(r["code"], lambda st, p: n_steps.__setitem__(0, n_steps[0] + 1))
            rp.ok(rule, s, short, "%d canonical steps equal" % n_steps[0])
        elif r.get("missing"):
            rp.fail(rule, short + "/missing", s, r["diff"])
        elif r.get("unrecognised"):
            rp.fail(rule, short + "/unrecognised", s, r["diff"])
        else:
            if r["diff"]:
                rp.fail(rule, short + "/differs", s, "grammar differs from the reference at %s" % r["diff"], expected="spec/grammar.py", found=r["diff"])
            for kind, msg, loc in r.get("anomalies", []):
                rp.fail(kind, short + "/" + msg[:60], s + " " + loc, msg)
            for o in r.get("opaque", []):
                rp.fail(rule, short + "/opaque/" + str(o[-1])[:60], s, "construct the analysis cannot read: %s" % o)
    return out


def all_parser_fns(F):
    """hand-written and derived functions returning nom IResult over a byte slice"""
    out = []
    for f in F.hir_fns():
        o = f.get("output", "")
        if f["dk"] in ("Fn", "AssocFn") and o.startswith("core::result::Result<(&") and "nom::internal::Err" in o and "tls_records_parser" not in f["path"]:
            # a private generic helper that takes a parser / constructor / predicate as a parameter has no grammar of its
            # own: it is analysed where it is called, with the actual function inlined
            fn_param = any(("fn(" in (p.get("ty") or "")) or ("impl Fn" in (p.get("ty") or "")) or re.fullmatch(r"[A-Z]\w?", p.get("ty") or "") for p in f["params"])
            if fn_param and not f.get("exported"):
                continue
            out.append(f)
    return out


def repetition_progress(rp, seq, where, s):
    """REP-PROGRESS: under many0/many1 the element parser must be able to fail with Err::Error and must consume:
    otherwise nom's no-progress check turns every input into an error (or the loop would not end)."""
    def chk(st, p):
        if st[0] in ("many0", "many1"):
            inner = st[2]
            ok = can_error(inner) and consumes_always(inner)
            rp.check(ok, "REP-PROGRESS", "%s%s" % (where, p), s,
                     "repetition over a parser that %s: nom's progress guard rejects (or the loop cannot end)" % ("cannot fail" if not can_error(inner) else "may succeed without consuming"),
                     why_ok="element parser can fail and always consumes")
    walk_steps(seq, chk)


def first_steps(seq, n):
    return seq["steps"][:n]
