"""Parser IR (PIR): the wire grammar a parser function implements, in a canonical form.

Two front ends drive one Builder:
  * Ev      - a symbolic evaluator of the extracted HIR of /repo (no repo code is executed);
  * spec/*  - hand-written reference grammars calling the Builder API directly.
Both produce the same canonical structure, which is then compared structurally.

Canonical sequence  seq := {"steps": [step...], "ret": ret}
  step := ["u", b, bits, endian, mode]            integer, mode S(treaming)/C(omplete)
        | ["bytes", b, n, mode]                   n raw bytes; mode S/C, or X = exact slice written by hand (needs a guard)
        | ["tag", bytes, mode]
        | ["guard", cond, kind]                   cond true -> Err::Error(kind)  (kind None = unspecified)
        | ["peek", b, seq]                        parser applied without advancing
        | ["sub", b, region, seq]                 parser applied to a region value; its remainder is dropped
        | ["opt"|"complete"|"many0"|"many1"|"all_consuming"|"cut", b, seq]
        | ["cond", b, c, seq] | ["count", b, n, seq] | ["alt", b, [seq...]]
        | ["ite", b, c, seq, seq]
        | ["switch", b, scrut, [[consts, seq]...], seq_default]
        | ["param_parser", b, name]               a parser passed in as an argument
        | ["opaque", b, text]                     unrecognised construct (comparison fails closed)
  ret  := ["ok", sym] | ["okwhole", sym] (remainder is the empty slice) | ["err", kind, severity] | ["okrem", sym_rem, sym]
Symbolic expressions are nested lists, see sym helpers below. Binders are "b<N>" numbered in emission order.
"""
import json, re
from .core import strip, strip_ref, is_try, path_of, short_loc

WIDTH = {"u8": 8, "u16": 16, "u32": 32, "u64": 64, "usize": 64, "u128": 128, "i8": 8, "i16": 16, "i32": 32, "i64": 64, "isize": 64}


# ------------------------------------------------------------------------------- syms
def V(b):
    return ["v", b]


def N(n):
    return ["n", n]


def P(name):
    return ["p", name]


def op(o, a, b):
    return canon(["op", o, a, b])


def lt(a, b):
    return op("<", a, b)


def le(a, b):
    return op("<=", a, b)


def eq(a, b):
    return op("==", a, b)


def ne(a, b):
    return canon(["not", eq(a, b)])


def lor(a, b):
    return op("||", a, b)


def land(a, b):
    return op("&&", a, b)


def ctor(path, *args):
    return ["ctor", path, list(args)]


def struct(path, **fields):
    return ["struct", path, sorted([k, v] for k, v in fields.items())]


def unit(path):
    return ["unit", path]


def some(x):
    return ["ctor", "core::option::Option::Some", [x]]


NONE = ["unit", "core::option::Option::None"]
REMAINING = ["remaining"]
EMPTYVEC = ["vec", []]


def tup(*xs):
    return ["tuple", list(xs)]


def cast(ty, x):
    return ["cast", ty, x]


def fld(x, name):
    return canon(["fld", x, name])


def canon(s):
    """local canonicalisation of one node (children already canonical)."""
    if not isinstance(s, list) or not s:
        return s
    t = s[0]
    if t == "op":
        o, a, b = s[1], s[2], s[3]
        if o == ">":
            return canon(["op", "<", b, a])
        if o == ">=":
            return canon(["op", "<=", b, a])
        if o == "!=":
            return canon(["not", canon(["op", "==", a, b])])
        if o == "==":
            for k_, m_ in ((a, b), (b, a)):
                if k_ == ["n", 1] and m_[0] == "op" and m_[1] == "%" and m_[3] == ["n", 2]:
                    return ["op", "<", ["n", 0], m_]   # x % 2 == 1  is  x % 2 != 0
        if o in ("==", "|", "&", "+", "*", "^", "||", "&&"):
            # commutative (conditions in this crate are side-effect free, so || and && commute as well)
            if json.dumps(a, sort_keys=True) > json.dumps(b, sort_keys=True):
                a, b = b, a
        if a == b and o in ("<", "<=", "==") and a[0] in ("v", "n", "p", "remaining", "len", "fld", "cast", "be16"):
            return ["bool", o != "<"]  # pure operands: x < x is false, x <= x and x == x are true
        if o == "<" and b == ["n", 0]:
            return ["bool", False]  # unsigned
        if o == "<=" and a == ["n", 0]:
            return ["bool", True]
        if o == "<=" and b == ["n", 0]:
            return canon(["op", "==", ["n", 0], a])  # unsigned: x <= 0 is x == 0
        if o == "<" and b == ["n", 1]:
            return canon(["op", "==", ["n", 0], a])  # unsigned: x < 1 is x == 0
        if o == "<=" and b[0] == "n" and a[0] != "n":
            return canon(["op", "<", a, ["n", b[1] + 1]])   # integers: x <= k is x < k + 1
        if o == "<=" and a[0] == "n" and b[0] != "n" and a[1] > 0:
            return canon(["op", "<", ["n", a[1] - 1], b])   # integers: k <= x is k - 1 < x
        if o in ("||", "&&") and (a[0] == "bool" or b[0] == "bool"):
            k_, other = (a, b) if a[0] == "bool" else (b, a)
            if o == "||":
                return ["bool", True] if k_[1] else other
            return other if k_[1] else ["bool", False]
        if a[0] == "n" and b[0] == "n":
            x, y = a[1], b[1]
            try:
                r = {"+": x + y, "-": x - y, "*": x * y, "<<": x << y, ">>": x >> y, "&": x & y, "|": x | y, "^": x ^ y}.get(o)
                if o == "/" and y:
                    r = x // y
                if o == "%" and y:
                    r = x % y
                if r is not None and r >= 0:
                    return ["n", r]
                if o in ("<", "<=", "=="):
                    return ["bool", {"<": x < y, "<=": x <= y, "==": x == y}[o]]
            except Exception:
                pass
        # big-endian 16-bit assembled by hand: (x[0] as u16) << 8 | x[1] as u16
        if o == "|":
            for hi, lo_ in ((a, b), (b, a)):
                if (hi[0] == "op" and hi[1] == "<<" and hi[3] == ["n", 8] and hi[2][0] == "idx" and hi[2][2] == ["n", 0]
                        and lo_[0] == "idx" and lo_[2] == ["n", 1] and hi[2][1] == lo_[1]):
                    return ["be16", lo_[1]]
        return ["op", o, a, b]
    if t == "not":
        a = s[1]
        if a[0] == "not":
            return a[1]
        if a[0] == "op" and a[1] in ("&&", "||"):
            return canon(["op", "||" if a[1] == "&&" else "&&", canon(["not", a[2]]), canon(["not", a[3]])])
        if a[0] == "bool":
            return ["bool", not a[1]]
        if a[0] == "op" and a[1] == "<":
            return canon(["op", "<=", a[3], a[2]])
        if a[0] == "op" and a[1] == "<=":
            return canon(["op", "<", a[3], a[2]])
        if a[0] == "op" and a[1] == "==" and a[2] == ["n", 0]:
            return ["op", "<", ["n", 0], a[3]]  # unsigned: x != 0  ==  0 < x
        if a[0] == "op" and a[1] == "==" and a[3] == ["n", 0]:
            return ["op", "<", ["n", 0], a[2]]
        return s
    if t == "fld":
        x, name = s[1], s[2]
        if x[0] == "struct":
            for k, v in x[2]:
                if k == name:
                    return v
        if x[0] == "ctor" and name.isdigit() and int(name) < len(x[2]):
            return x[2][int(name)]
        if x[0] == "tuple" and name.isdigit() and int(name) < len(x[1]):
            return x[1][int(name)]
        return s
    if t == "cast":
        ty, x = s[1], s[2]
        if x[0] == "n" and ty in WIDTH:
            return ["n", x[1] & ((1 << WIDTH[ty]) - 1)]
        return s
    return s


def recanon(s):
    """re-canonicalise a term bottom-up (after a substitution)"""
    if not isinstance(s, list) or not s:
        return s
    s = [recanon(x) for x in s]
    if s[0] in ("op", "not", "fld", "cast"):
        return canon(s)
    if s[0] in ("map_chunks2", "map_each") and s[1] == ["bytes_lit", []]:
        return ["vec", []]
    if s[0] == "len" and s[1] == ["bytes_lit", []]:
        return ["n", 0]
    return s


def negate(c):
    """logical negation with De Morgan (so that `a == 0 && b >= c` and `!(a > 0 || b < c)` meet)"""
    if isinstance(c, list) and c and c[0] == "op" and c[1] in ("&&", "||"):
        return op("||" if c[1] == "&&" else "&&", negate(c[2]), negate(c[3]))
    return canon(["not", c])


def occurs(s, x):
    if s == x:
        return True
    return isinstance(s, list) and any(occurs(y, x) for y in s)


def push_ret(seq):
    """`let x = if c {A} else {B}; Ok(f(x))` is `if c {A; Ok(f(a))} else {B; Ok(f(b))}`: when the value of a sequence
    is an expression over its last (branching) step, the expression moves into the arms.  Canonical form for values
    assembled after a branch or inside it."""
    st, r = seq["steps"], seq["ret"]
    if not st or not r or r[0] != "ok" or st[-1][0] not in ("ite", "switch"):
        return seq
    last = st[-1]
    hole = ["v", last[1]]
    if r[1] == hole or not occurs(r[1], hole):
        return seq
    memo = {}

    def arm(s):
        if id(s) not in memo:
            if s["ret"] and s["ret"][0] == "ok":
                memo[id(s)] = push_ret({"steps": s["steps"], "ret": ["ok", subst(r[1], hole, s["ret"][1])]})
            else:
                memo[id(s)] = s
        return memo[id(s)]
    if last[0] == "ite":
        new = ["ite", last[1], last[2], arm(last[3]), arm(last[4])]
    else:
        new = ["switch", last[1], last[2], [[c, arm(s)] for c, s in last[3]], arm(last[4])]
    return {"steps": st[:-1] + [new], "ret": ["ok", hole]}


def merge_many1(seq):
    """`p` once, then `many0(p)`, the results joined into one list, is `many1(p)` (nom: many1 = one mandatory application,
    then the many0 loop)"""
    import copy
    st, r = seq["steps"], seq["ret"]
    if not r or r[0] != "ok":
        return seq
    for i in range(len(st) - 1):
        a, b_ = st[i], st[i + 1]
        if b_[0] != "many0" or len(a) < 3 or not isinstance(a[-1], dict) or a[0] in ("many0", "many1"):
            continue
        inner = b_[2]
        if len(inner["steps"]) != 1 or inner["ret"] != ["ok", ["v", inner["steps"][0][1]]]:
            continue
        x, y = copy.deepcopy(a), copy.deepcopy(inner["steps"][0])
        ka = json.dumps(renumber({"steps": [x], "ret": ["ok", ["v", x[1]]]}), sort_keys=True)
        kb = json.dumps(renumber({"steps": [y], "ret": ["ok", ["v", y[1]]]}), sort_keys=True)
        if ka != kb:
            continue
        joined = ["concat", ["vec", [["v", a[1]]]], ["v", b_[1]]]
        if not occurs(r[1], joined):
            continue
        rest = subst(r[1], joined, ["v", b_[1]])
        if occurs(rest, ["v", a[1]]) or any(occurs(s_, ["v", a[1]]) for s_ in st[i + 2:]):
            continue
        return merge_many1({"steps": st[:i] + [["many1", b_[1], inner]] + st[i + 2:], "ret": ["ok", rest]})
    return seq


HOISTABLE = ("u", "bytes", "tag", "param_parser")


def common_prefix(sa, sb):
    """steps both arms start with (up to binder names): (prefix steps in sa's names, rest of sa, rest of sb renamed)"""
    m = {}
    n = 0
    A, B = sa["steps"], sb["steps"]
    def ren(x):
        if isinstance(x, list):
            if len(x) == 2 and x[0] == "v" and x[1] in m:
                return ["v", m[x[1]]]
            return [ren(y) for y in x]
        if isinstance(x, dict):
            return {k: ren(v) for k, v in x.items()}
        return x
    while n < len(A) and n < len(B) and A[n][0] == B[n][0] and A[n][0] in HOISTABLE:
        a, b_ = A[n], B[n]
        if a[0] == "tag":
            if a != b_:
                break
        else:
            if a[2:] != ren(b_[2:]):
                break
            m[b_[1]] = a[1]
        n += 1
    if n == 0:
        return [], sa, sb
    return A[:n], {"steps": A[n:], "ret": sa["ret"]}, {"steps": ren(B[n:]), "ret": ren(sb["ret"])}


def antiunify(x, y, holes):
    """most specific common generalisation of two value terms; differing subterms become ["hole", i] (pairs in holes)"""
    if x == y:
        return x
    if isinstance(x, list) and isinstance(y, list) and len(x) == len(y) and x:
        if isinstance(x[0], str) and x[0] == y[0] and x[0] in ("ctor", "struct", "tuple", "vec"):
            if x[0] in ("ctor", "struct") and x[1] != y[1]:
                holes.append((x, y))
                return ["hole", len(holes) - 1]
            return [x[0]] + [antiunify(a, b_, holes) for a, b_ in zip(x[1:], y[1:])]
        if isinstance(x[0], list) or (len(x) == 2 and isinstance(x[0], str) and x[0] == y[0] and isinstance(x[1], list) and x[0] not in ("v", "n", "p", "unit", "lp")):
            # argument lists, field lists [[name, value], ..] and [name, value] pairs
            return [antiunify(a, b_, holes) if isinstance(a, list) else a for a, b_ in zip(x, y)] if all((not isinstance(a, str)) or a == b_ for a, b_ in zip(x, y)) else _hole(x, y, holes)
    return _hole(x, y, holes)


def _hole(x, y, holes):
    holes.append((x, y))
    return ["hole", len(holes) - 1]


def common_suffix(sa, sb):
    """steps both arms end with (up to binder names) that do not depend on what differs before them:
    -> (rest of sa, rest of sb, suffix steps in sa's names, sb's ret renamed) or None"""
    A, B = sa["steps"], sb["steps"]
    if not (sa["ret"] and sb["ret"] and sa["ret"][0] == "ok" and sb["ret"][0] == "ok"):
        return None
    best = None
    n = 1
    while n <= len(A) and n <= len(B):
        sufA, sufB = A[len(A) - n:], B[len(B) - n:]
        if any(s[0] not in HOISTABLE for s in sufA + sufB):
            break
        # binders defined in the differing fronts must not be used by the suffix
        frontA = set(s[1] for s in A[:len(A) - n] if len(s) > 1 and isinstance(s[1], str))
        frontB = set(s[1] for s in B[:len(B) - n] if len(s) > 1 and isinstance(s[1], str))
        m = {}
        def ren(x):
            if isinstance(x, list):
                if len(x) == 2 and x[0] == "v" and x[1] in m:
                    return ["v", m[x[1]]]
                return [ren(y) for y in x]
            return x
        ok = True
        for a, b_ in zip(sufA, sufB):
            if a[0] != b_[0]:
                ok = False
                break
            if a[0] == "tag":
                if a != b_:
                    ok = False
                    break
                continue
            if a[2:] != ren(b_[2:]):
                ok = False
                break
            if any(occurs(a[2:], ["v", f]) for f in frontA) or any(occurs(b_[2:], ["v", f]) for f in frontB):
                ok = False
                break
            m[b_[1]] = a[1]
        if not ok:
            n += 1
            continue   # a longer window may be consistent (its first steps define what the later ones use)
        best = ({"steps": A[:len(A) - n], "ret": sa["ret"]}, {"steps": B[:len(B) - n], "ret": ren(sb["ret"])}, sufA)
        n += 1
    return best


def eq_consts(c):
    """c is `x == k1 || x == k2 ...` over one scrutinee x and integer constants: (x, [k...]); else None"""
    def konst(x):
        if x[0] == "n":
            return x[1]
        if x[0] == "ctor" and len(x[2]) == 1 and x[2][0][0] == "n":
            return x[2][0][1]  # a constant of an integer newtype (derived PartialEq is structural)
        return None
    if c[0] == "op" and c[1] == "==":
        for k_, x in ((c[2], c[3]), (c[3], c[2])):
            if konst(k_) is not None and konst(x) is None:
                return x, [konst(k_)]
    if c[0] == "op" and c[1] == "||":
        a, b_ = eq_consts(c[2]), eq_consts(c[3])
        if a and b_ and a[0] == b_[0]:
            return a[0], a[1] + b_[1]
    return None


def redundant_special_case(c, sa, sb):
    """`if x == k { return A }; B` where B, specialised to x = k, does nothing but return A: the special case is
    redundant and the canonical form is B alone.  Decided only for B made of guards and one infallible slice."""
    if not (c[0] == "op" and c[1] == "==" and c[2][0] == "n"):
        return False
    k, x = c[2], c[3]
    if sa["steps"] or not sa["ret"] or sa["ret"][0] != "ok" or not sb["ret"] or sb["ret"][0] != "ok":
        return False
    taken = {}
    for st in sb["steps"]:
        if st[0] == "guard":
            g = recanon(subst(st[1], x, k))
            for b_, v_ in taken.items():
                g = recanon(subst(g, ["v", b_], v_))
            if g != ["bool", False]:
                return False
        elif st[0] == "bytes" and st[3] == "X":
            n = recanon(subst(st[2], x, k))
            if n != ["n", 0]:
                return False
            taken[st[1]] = ["bytes_lit", []]
        else:
            return False
    r = subst(sb["ret"][1], x, k)
    for b_, v_ in taken.items():
        r = subst(r, ["v", b_], v_)
    return recanon(r) == recanon(sa["ret"][1])


def sym_str(s):
    if not isinstance(s, list):
        return str(s)
    t = s[0]
    if t == "v":
        return s[1]
    if t == "n":
        return str(s[1]) if s[1] < 256 else hex(s[1])
    if t == "p":
        return "$" + s[1]
    if t == "op":
        return "(%s %s %s)" % (sym_str(s[2]), s[1], sym_str(s[3]))
    if t == "not":
        return "!" + sym_str(s[1])
    if t == "ctor":
        return "%s(%s)" % (s[1].split("::")[-1], ", ".join(sym_str(x) for x in s[2]))
    if t == "struct":
        return "%s{%s}" % (s[1].split("::")[-1], ", ".join("%s: %s" % (k, sym_str(v)) for k, v in s[2]))
    if t == "unit":
        return s[1].split("::")[-1]
    if t == "fld":
        return "%s.%s" % (sym_str(s[1]), s[2])
    if t == "cast":
        return "(%s as %s)" % (sym_str(s[2]), s[1])
    if t == "tuple":
        return "(%s)" % ", ".join(sym_str(x) for x in s[1])
    if t == "vec":
        return "vec![%s]" % ", ".join(sym_str(x) for x in s[1])
    if t == "len":
        return "len(%s)" % sym_str(s[1])
    if t == "remaining":
        return "remaining"
    if t == "be16":
        return "be16(%s)" % sym_str(s[1])
    if t == "lam":
        return "|%d| %s" % (s[1], sym_str(s[2]))
    if t == "lp":
        return "arg%d" % s[1]
    if t in ("call", "mcall"):
        return "%s(%s)" % (s[1].split("::")[-1], ", ".join(sym_str(x) for x in s[2]))
    return json.dumps(s)


def seq_str(seq, ind=0):
    pad = "  " * ind
    out = []
    for st in seq["steps"]:
        k = st[0]
        if k == "u":
            out.append("%s%s = u%d %s %s" % (pad, st[1], st[2], st[3], st[4]))
        elif k == "bytes":
            out.append("%s%s = bytes(%s) %s" % (pad, st[1], sym_str(st[2]), st[3]))
        elif k == "tag":
            out.append("%stag %s %s" % (pad, st[1], st[2]))
        elif k == "guard":
            out.append("%sreject if %s (%s)" % (pad, sym_str(st[1]), st[2]))
        elif k in ("peek", "opt", "complete", "many0", "many1", "all_consuming", "cut"):
            out.append("%s%s = %s:" % (pad, st[1], k))
            out.append(seq_str(st[2], ind + 1))
        elif k == "sub":
            out.append("%s%s = within %s:" % (pad, st[1], sym_str(st[2])))
            out.append(seq_str(st[3], ind + 1))
        elif k == "cond":
            out.append("%s%s = cond %s:" % (pad, st[1], sym_str(st[2])))
            out.append(seq_str(st[3], ind + 1))
        elif k == "count":
            out.append("%s%s = count %s:" % (pad, st[1], sym_str(st[2])))
            out.append(seq_str(st[3], ind + 1))
        elif k == "alt":
            out.append("%s%s = alt:" % (pad, st[1]))
            for s2 in st[2]:
                out.append(pad + " |")
                out.append(seq_str(s2, ind + 1))
        elif k == "ite":
            out.append("%s%s = if %s:" % (pad, st[1], sym_str(st[2])))
            out.append(seq_str(st[3], ind + 1))
            out.append(pad + "else:")
            out.append(seq_str(st[4], ind + 1))
        elif k == "switch":
            out.append("%s%s = switch %s:" % (pad, st[1], sym_str(st[2])))
            for consts, s2 in st[3]:
                out.append("%s case %s:" % (pad, consts))
                out.append(seq_str(s2, ind + 2))
            out.append(pad + " default:")
            out.append(seq_str(st[4], ind + 2))
        else:
            out.append("%s%s" % (pad, json.dumps(st)))
    r = seq["ret"]
    if r is None:
        out.append(pad + "ret ?")
    elif r[0] in ("ok", "okwhole"):
        out.append("%s%s %s" % (pad, r[0], sym_str(r[1])))
    else:
        out.append("%s%s" % (pad, json.dumps(r)))
    return "\n".join(out)


# ------------------------------------------------------------------------------- builder
class Counter:
    def __init__(self):
        self.n = 0
        self.t = 0

    def fresh(self):
        self.n += 1
        return "b%d" % (self.n - 1)

    def fresh_tok(self):
        self.t += 1
        return self.t


class Opaque(Exception):
    """a construct the evaluator cannot read"""
    pass


class Fail(Exception):
    """raised inside a branch function when the branch ends with an error return"""

    def __init__(self, kind, severity="Error"):
        self.kind = kind
        self.severity = severity


class Builder:
    def __init__(self, counter=None, cur=None):
        self.counter = counter or Counter()
        self.steps = []
        self.ret = None
        # input positions are named by serial numbers shared by all builders of one evaluation
        self.cur = cur if cur is not None else self.counter.fresh_tok()
        self.hist = []
        self.drops_remainder = False
        self.input_alias = None  # a region value (sym) that denotes this builder's input at position alias_at
        self.alias_at = None
        self.parent = None      # enclosing builder reading the same input (None for a region / the top)
        self.own_peeks = {}     # (position, alpha-normalised nested grammar) -> binder of a peek step of this builder

    # -- token for the current position
    def tok(self):
        return ["tok", self.cur]

    def _adv(self):
        self.hist.append(self.cur)
        self.cur = self.counter.fresh_tok()

    def child(self, same_input=True, drops=False):
        nb = Builder(self.counter, self.cur if same_input else None)
        nb.parent = self if same_input else None
        nb.drops_remainder = drops or (same_input and self.drops_remainder)
        if same_input and self.input_alias is not None and self.alias_at == self.cur:
            nb.input_alias, nb.alias_at = self.input_alias, nb.cur
        return nb

    def seen_tok(self, t):
        """was t an earlier position of this input (in this builder or an enclosing one reading the same input)?"""
        bld = self
        while bld is not None:
            if t in bld.hist:
                return True
            bld = bld.parent
        return False

    def is_cur(self, s):
        """does sym s denote the current input position?"""
        return s == ["tok", self.cur] or (self.input_alias is not None and s == self.input_alias and self.alias_at == self.cur)

    def norm(self, x):
        """`i.len()` is tied to the position i denotes: at the current position it is what remains; at the start of a
        region (or for a name of the whole region) it is the region's length; at any other, earlier position it is not
        a quantity of the grammar (a length measured before something was consumed and used after)"""
        if not (isinstance(x, list) and "remaining_at" in json.dumps(x)):
            return x
        def at(t):
            if t == self.cur:
                return REMAINING
            bld = self
            while bld is not None:
                if getattr(bld, "region_start", None) == t:
                    return ["len", bld.region]
                if bld.input_alias is not None and bld.alias_at == t:
                    return ["len", bld.input_alias]
                bld = bld.parent
            return ["opaque", "length of the input at an earlier position"]
        def rw(t):
            if isinstance(t, list):
                if len(t) == 2 and t[0] == "remaining_at":
                    return at(t[1])
                return [rw(y) for y in t]
            return t
        return recanon(rw(x))

    def seq(self):
        return {"steps": self.steps, "ret": self.ret}

    def run(self, fn, top=False):
        """run fn(self) -> value; records ret; returns seq. A construct the evaluator cannot read inside a *nested*
        sequence becomes an opaque step there (so that properties that do not look inside that region are unaffected)."""
        if top and getattr(self, "region_start", None) is None:
            # the input a function is entered with is a region of its own: its length, measured on entry, stays a
            # quantity of the grammar after some of it was consumed
            self.region, self.region_start = ["input"], self.cur
        try:
            v = fn(self)
            if self.ret is None:
                self.ret = ["ok", self.norm(v)]
            canon_seq = push_ret(merge_many1(self.seq()))
            self.steps, self.ret = canon_seq["steps"], canon_seq["ret"]
        except Fail as f:
            self.ret = ["err", f.kind, f.severity]
        except Opaque as o:
            if top:
                raise
            self.steps.append(["opaque", self.counter.fresh(), "unreadable: %s" % o])
            self.ret = ["ok", ["opaque", "unreadable"]]
        return self.seq()

    def _nested(self, fn, same_input=True, drops=False):
        nb = self.child(same_input, drops)
        seq = nb.run(fn)
        self._last_child = nb
        return seq

    # -- leaves
    def u(self, bits, endian="be", mode="S"):
        b = self.counter.fresh()
        self.steps.append(["u", b, bits, endian, mode])
        self._adv()
        return V(b)

    def bytes(self, n, mode="S"):
        n = self.norm(n)
        b = self.counter.fresh()
        self.steps.append(["bytes", b, n, mode])
        self._adv()
        return V(b)

    def tag(self, bs, mode="S"):
        self.steps.append(["tag", list(bs), mode])
        self._adv()
        return ["bytes_lit", list(bs)]

    def guard(self, cond, kind=None):
        cond = self.norm(cond)
        if cond == ["bool", False]:
            return
        if cond[0] == "op" and cond[1] == "||":
            # reject if (A or B)  ==  reject if A; reject if B   (same error either way)
            self.guard(cond[2], kind)
            self.guard(cond[3], kind)
            return
        self.steps.append(["guard", cond, kind])

    def fail(self, kind=None, severity="Error"):
        if isinstance(kind, str) and kind.startswith("Incomplete:") and "remaining_at" in kind:
            kind = "Incomplete:" + json.dumps(self.norm(json.loads(kind[len("Incomplete:"):])))
        raise Fail(kind, severity)

    # -- wrappers
    def _wrap(self, k, fn, *extra):
        b = self.counter.fresh()
        seq = self._nested(fn)
        st = seq["steps"]
        if k in ("complete", "many1", "cut", "all_consuming") and not extra and len(st) == 1 and st[0][0] in ("switch", "ite") and seq["ret"] == ["ok", V(st[0][1])]:
            # W(match x {k => P_k}) with x fixed before W starts is match x {k => W(P_k)}: the dispatch is outermost
            # (a parser picked once, e.g. through a fn pointer, and then wrapped = wrapping each candidate)
            br = st[0]
            memo = {}
            def wrapped(s):
                if id(s) not in memo:
                    if not s["steps"] and s["ret"] and s["ret"][0] == "err":
                        memo[id(s)] = s
                    else:
                        nb_ = self.counter.fresh()
                        memo[id(s)] = {"steps": [[k, nb_, s]], "ret": ["ok", V(nb_)]}
                return memo[id(s)]
            if br[0] == "ite":
                self.steps.append(["ite", br[1], br[2], wrapped(br[3]), wrapped(br[4])])
            else:
                self.steps.append(["switch", br[1], br[2], [[c, wrapped(s)] for c, s in br[3]], wrapped(br[4])])
            self._adv()
            return V(br[1])
        if k == "complete" and not extra and not may_incomplete(seq) and '"Incomplete' not in json.dumps(seq):
            # complete(p) where p never answers Incomplete is p
            return self._splice(seq, self._last_child)
        self.steps.append([k, b] + list(extra) + [seq])
        self._adv()
        return V(b)

    def opt(self, fn):
        return self._wrap("opt", fn)

    def complete(self, fn):
        return self._wrap("complete", fn)

    def many0(self, fn):
        return self._wrap("many0", fn)

    def many1(self, fn):
        return self._wrap("many1", fn)

    def all_consuming(self, fn):
        return self._wrap("all_consuming", fn)

    def cut(self, fn):
        return self._wrap("cut", fn)

    def cond(self, c, fn):
        c = self.norm(c)
        if c == ["bool", True]:
            return some(self._inline(fn))
        if c == ["bool", False]:
            return NONE
        if c[0] == "op" and c[1] == "<" and c[2] == ["n", 0]:
            return self._emit_cond(c, self._nested(fn))
        return self._wrap("cond", fn, c)

    def _emit_cond(self, c, seq):
        st = seq["steps"]
        if c[0] == "op" and c[1] == "<" and c[2] == ["n", 0] and len(st) == 1 and st[0][0] == "bytes" and st[0][2] == c[3] and seq["ret"] == ["ok", V(st[0][1])]:
            # taking zero bytes always succeeds and yields the empty slice: the test only decides between None and Some
            self.steps.append(st[0])
            self._adv()
            return ["nonempty", V(st[0][1])]
        b = self.counter.fresh()
        self.steps.append(["cond", b, c, seq])
        self._adv()
        return V(b)

    def count(self, n, fn):
        return self._wrap("count", fn, self.norm(n))

    def peek(self, fn):
        b = self.counter.fresh()
        seq = self._nested(fn, drops=True)
        # looking at the same bytes again (a helper that re-reads what its caller already peeked, with nothing consumed
        # in between) yields the same value: reuse the dominating peek
        import copy
        wrap_ = None
        r_ = seq["ret"]
        if r_ and r_[0] == "ok" and r_[1][0] == "ctor" and len(r_[1][2]) == 1 and r_[1][2][0][0] == "v":
            # peek(map(p, Newtype)) is Newtype(peek(p)): the step keeps the raw value
            wrap_ = r_[1][1]
            seq = {"steps": seq["steps"], "ret": ["ok", r_[1][2][0]]}
        def out_(v):
            return ["ctor", wrap_, [v]] if wrap_ else v
        key = (self.cur, json.dumps(renumber(copy.deepcopy(seq)), sort_keys=True))
        bld = self
        while bld is not None:
            if key in bld.own_peeks:
                return out_(V(bld.own_peeks[key]))
            bld = bld.parent
        self.own_peeks[key] = b
        self.steps.append(["peek", b, seq])
        return out_(V(b))

    def sub(self, region, fn):
        b = self.counter.fresh()
        region = self.norm(region)
        def in_region(nb):
            nb.region, nb.region_start = region, nb.cur
            return fn(nb)
        seq = self._nested(in_region, same_input=False, drops=True)
        return self._emit_sub(b, region, seq)

    def _emit_sub(self, b, region, seq):
        """a nested grammar applied to an already cut region.  Canonical forms: a nested grammar that reads nothing is
        its value; one that only takes the whole region is the region; a branch as the only step is a branch between
        two region grammars (so `if c {A} else {parse(region)}` and `parse'(region)` with the test inside agree)"""
        st, r = seq["steps"], seq["ret"]
        if r and r[0] == "ok":
            if not st:
                return r[1]
            if len(st) == 1 and st[0][0] == "bytes" and st[0][2] == REMAINING and st[0][3] == "X":
                return subst(r[1], V(st[0][1]), region)
            if len(st) == 1 and st[0][0] == "bytes" and region[0] == "v":
                # taking n bytes of a region that was itself taken with count n is taking the whole region
                # (n possibly written as `region.len() as u16`)
                def step_of(name):
                    bld = self
                    while bld is not None:
                        for s_ in bld.steps:
                            if len(s_) > 1 and s_[1] == name and s_[0] in ("bytes", "u"):
                                return s_
                        bld = bld.parent
                    return None
                def norm(x):
                    if not isinstance(x, list):
                        return x
                    x = [norm(y) for y in x]
                    if len(x) == 2 and x[0] == "len" and isinstance(x[1], list) and len(x[1]) == 2 and x[1][0] == "v":
                        s_ = step_of(x[1][1])
                        if s_ is not None and s_[0] == "bytes" and s_[2] != REMAINING:
                            return norm(s_[2])
                    if len(x) == 3 and x[0] == "cast" and isinstance(x[2], list) and len(x[2]) == 2 and x[2][0] == "v":
                        s_ = step_of(x[2][1])
                        if s_ is not None and s_[0] == "u" and s_[2] <= {"u8": 8, "u16": 16, "u32": 32, "u64": 64, "usize": 64}.get(x[1], 0):
                            return x[2]
                    return x
                reg_step = step_of(region[1])
                cnt = reg_step[2] if reg_step is not None and reg_step[0] == "bytes" else None
                if cnt is not None and norm(cnt) == norm(st[0][2]):
                    return subst(r[1], V(st[0][1]), region)
            if len(st) == 1 and st[0][0] == "ite" and r[1] == V(st[0][1]):
                _, ib, c, sa, sb = st[0]
                def arm(s):
                    if not s["steps"] and s["ret"] and s["ret"][0] == "err":
                        return s
                    tmp = Builder(self.counter)
                    if s["ret"] and s["ret"][0] == "ok":
                        v = tmp._emit_sub(self.counter.fresh(), region, s)
                        return {"steps": tmp.steps, "ret": ["ok", v]}
                    nb_ = self.counter.fresh()
                    return {"steps": [["sub", nb_, region, s]], "ret": ["ok", V(nb_)]}
                self.steps.append(["ite", ib, c, arm(sa), arm(sb)])
                return V(ib)
        self.steps.append(["sub", b, region, seq])
        return V(b)

    def within(self, n, fn, mode="S"):
        """map_parser(take(n), fn)"""
        r = self.bytes(n, mode)
        return self.sub(r, fn)

    def alt(self, fns):
        b = self.counter.fresh()
        seqs = [self._nested(f) for f in fns]
        self.steps.append(["alt", b, seqs])
        self._adv()
        return V(b)

    def ite(self, c, fa, fb):
        c = self.norm(c)
        if c == ["bool", True]:
            return self._inline(fa)
        if c == ["bool", False]:
            return self._inline(fb)
        sa = self._nested(fa)
        ca = self._last_child
        sb = self._nested(fb)
        cb = self._last_child
        if redundant_special_case(c, sa, sb):
            return self._splice(sb, cb)
        # what both arms read first is read before the branch
        pre, sa, sb = common_prefix(sa, sb)
        self.steps.extend(pre)
        # what both arms read last (independently of what differs) is read after the branch; the branch then yields
        # only the part of the value that differs
        cs = common_suffix(sa, sb)
        if cs is not None:
            sa2, sb2, suffix = cs
            holes = []
            gen_ret = antiunify(sa2["ret"][1], sb2["ret"][1], holes)
            def fill(term, vals):
                if isinstance(term, list):
                    if len(term) == 2 and term[0] == "hole":
                        return vals[term[1]]
                    return [fill(x, vals) for x in term]
                return term
            if not holes and not sa2["steps"] and not sb2["steps"]:
                # the arms do the same thing: no branch at all
                self.steps.extend(suffix)
                self._adv()
                return gen_ret
            if len(holes) <= 1:
                ra = holes[0][0] if holes else tup()
                rb = holes[0][1] if holes else tup()
                inner = self._ite_built(c, {"steps": sa2["steps"], "ret": ["ok", ra]}, {"steps": sb2["steps"], "ret": ["ok", rb]}, ca, cb)
                self.steps.extend(suffix)
                self._adv()
                return fill(gen_ret, [inner])
        return self._ite_built(c, sa, sb, ca, cb)

    def _wrapped_cond(self, c, sa, sb, ca, cb):
        """`if c { W(None) } else { W(Some(parse)) }` is W(cond(!c, parse)): the wrapper around the one place where the
        arms differ is applied to the optional value.  -> value, or None when the arms are not of that form"""
        if not (sa["ret"] and sb["ret"] and sa["ret"][0] == "ok" and sb["ret"][0] == "ok"):
            return None
        holes = []
        gen_ret = antiunify(sa["ret"][1], sb["ret"][1], holes)
        if len(holes) != 1:
            return None
        ha, hb = holes[0]
        def is_some(x):
            return x[0] == "ctor" and x[1] == "core::option::Option::Some" and len(x[2]) == 1
        if ha == NONE and not sa["steps"] and is_some(hb):
            inner = self._emit_cond(canon(["not", c]), {"steps": sb["steps"], "ret": ["ok", hb[2][0]]})
        elif hb == NONE and not sb["steps"] and is_some(ha):
            inner = self._emit_cond(c, {"steps": sa["steps"], "ret": ["ok", ha[2][0]]})
        else:
            return None
        return subst(gen_ret, ["hole", 0], inner)

    def _ite_built(self, c, sa, sb, ca, cb):
        # a streaming take written by hand: `if i.len() < n { return Err(Incomplete(Needed::new(n - i.len()))) }` and then
        # the first n bytes are split off: this is take(n) (the Needed value must be the missing byte count)
        for (x, y, cy, cond_) in ((sa, sb, cb, c), (sb, sa, ca, canon(["not", c]))):
            if not x["steps"] and x["ret"] and x["ret"][0] == "err" and x["ret"][2] == "Incomplete" and isinstance(x["ret"][1], str) and x["ret"][1].startswith("Incomplete:") \
                    and cond_[0] == "op" and cond_[1] == "<" and cond_[2] == REMAINING and y["steps"] and y["steps"][0][0] == "bytes" and y["steps"][0][3] == "X" and y["steps"][0][2] == cond_[3] \
                    and json.loads(x["ret"][1][len("Incomplete:"):]) == op("-", cond_[3], REMAINING):
                first = y["steps"][0]
                y2 = {"steps": [["bytes", first[1], first[2], "S"]] + y["steps"][1:], "ret": y["ret"]}
                return self._splice(y2, cy)
        # a branch that only rejects is a guard
        if not sa["steps"] and sa["ret"] and sa["ret"][0] == "err" and sa["ret"][2] == "Error":
            self.guard(c, sa["ret"][1])
            return self._splice(sb, cb)
        if not sb["steps"] and sb["ret"] and sb["ret"][0] == "err" and sb["ret"][2] == "Error":
            self.guard(canon(["not", c]), sb["ret"][1])
            return self._splice(sa, ca)
        # `if c { Some(parse) } else { None }` is nom's cond(c, parse)
        wc = self._wrapped_cond(c, sa, sb, ca, cb)
        if wc is not None:
            return wc
        # `if x == k { A } else { B }` is `match x { k => A, _ => B }` (and the negated form)
        ec = eq_consts(c)
        if ec is not None:
            return self._switch_built(ec[0], [(sorted(set(ec[1])), sa, ca)], sb, cb)
        nc = eq_consts(canon(["not", c]))
        if nc is not None:
            return self._switch_built(nc[0], [(sorted(set(nc[1])), sb, cb)], sa, ca)
        # polarity: of c and its negation keep the one that sorts first (arms swapped accordingly)
        nc_ = negate(c)
        if json.dumps(nc_, sort_keys=True) < json.dumps(c, sort_keys=True):
            c, sa, sb, ca, cb = nc_, sb, sa, cb, ca
        b = self.counter.fresh()
        self.steps.append(["ite", b, c, sa, sb])
        if ca.cur != self.cur or cb.cur != self.cur:
            self._adv()  # (a branch between arms that read nothing leaves the position where it was)
        return V(b)

    def _inline(self, fn):
        return fn(self)

    def _splice(self, seq, child):
        """append the steps of an already built nested seq to this builder (binder numbering is
        already global) and return its value / propagate its error."""
        self.steps.extend(seq["steps"])
        self.hist.extend(child.hist)
        if child.cur != self.cur:
            self.hist.append(self.cur)
        self.cur = child.cur
        r = seq["ret"]
        if r[0] == "err":
            raise Fail(r[1], r[2])
        if r[0] == "okwhole":
            self.ret = ["okwhole", r[1]]
            return r[1]
        return r[1]

    def switch(self, scrut, arms, default):
        """arms: [(consts(list of ints), fn)], default: fn"""
        scrut = self.norm(scrut)
        if scrut[0] == "n":
            for consts, fn in arms:
                if scrut[1] in consts:
                    return self._inline(fn)
            return self._inline(default)
        built = []
        for consts, fn in arms:
            s = self._nested(fn)
            built.append((sorted(consts), s, self._last_child))
        d = self._nested(default)
        dchild = self._last_child
        return self._switch_built(scrut, built, d, dchild)

    def _switch_built(self, scrut, built, d, dchild):
        """built: [(sorted consts, seq, child builder)], d: default seq"""
        def rejects(s):
            return not s["steps"] and s["ret"] and s["ret"][0] == "err" and s["ret"][2] == "Error"
        def not_in(c):
            """c says `scrut is none of K`: K"""
            if c[0] == "op" and c[1] == "&&":
                a, b_ = not_in(c[2]), not_in(c[3])
                return a + b_ if a is not None and b_ is not None else None
            ec = eq_consts(canon(["not", c]))
            return ec[1] if ec is not None and ec[0] == scrut else None
        # a default that starts by rejecting everything but some constants of the same scrutinee is an arm for those
        # constants with a rejecting default (the form a trailing `match x { k => B, _ => Err }` was given)
        while d["steps"] and d["steps"][0][0] == "guard" and not_in(d["steps"][0][1]) is not None:
            ks = not_in(d["steps"][0][1])
            seen = set(c for cs, _, _ in built for c in cs)
            arm = {"steps": d["steps"][1:], "ret": d["ret"]}
            for c in ks:
                if c not in seen:
                    built.append(([c], arm, None))
            d, dchild = {"steps": [], "ret": ["err", d["steps"][0][2], "Error"]}, None
        # a default that is itself a dispatch on the same scrutinee continues this one (if / else-if chains, a helper
        # that re-dispatches on the value its caller already tested)
        while len(d["steps"]) == 1 and d["steps"][0][0] == "switch" and d["steps"][0][2] == scrut and d["ret"] and d["ret"][0] == "ok":
            inner = d["steps"][0]
            wrap, hole = d["ret"][1], ["v", inner[1]]
            def mapped(s):
                # the default returns f(inner dispatch): each inner arm returns f(its value)
                if wrap == hole or not s["ret"] or s["ret"][0] != "ok":
                    return s
                return {"steps": s["steps"], "ret": ["ok", subst(wrap, hole, s["ret"][1])]}
            seen = set(c for cs, _, _ in built for c in cs)
            for c, s in inner[3]:
                if c not in seen:
                    built.append(([c], mapped(s), None))
            d, dchild = mapped(inner[4]), None
        # `match x { k.. => S_k, _ => if c(x) { A } else { B } }` where c is false for every listed k is
        # `if c(x) { A } else { match x { k.. => S_k, _ => B } }` (a test done in the fallback arm or before the dispatch)
        if built and len(d["steps"]) == 1 and d["steps"][0][0] == "ite" and d["ret"] == ["ok", V(d["steps"][0][1])] and scrut[0] == "v":
            it = d["steps"][0]
            fv_ = set()
            def fvs(s_):
                if isinstance(s_, list):
                    if len(s_) == 2 and s_[0] == "v" and isinstance(s_[1], str):
                        fv_.add(s_[1])
                    else:
                        for y_ in s_:
                            fvs(y_)
            fvs(it[2])
            ok_ = fv_ == {scrut[1]}
            if ok_:
                from .grammar_check import ev_sym
                try:
                    ok_ = all(not ev_sym(it[2], {scrut[1]: c_}) for cs_, _, _ in built for c_ in cs_)
                except Exception:
                    ok_ = False
            if ok_:
                inner_sw = Builder(self.counter, self.cur)
                inner_sw.parent = self
                v_in = inner_sw._switch_built(scrut, built, it[4], None)
                else_seq = {"steps": inner_sw.steps, "ret": ["ok", v_in]}
                return self._ite_built(it[2], it[3], else_seq, Builder(self.counter, self.cur), inner_sw)
        # arms that all parse the same region (`k => p_k(region)`) are a dispatch inside that region; an arm that reads
        # nothing is the same inside or outside the region
        def pure_(s):
            return not s["steps"] and s["ret"] and s["ret"][0] == "ok"
        allc = [x[1] for x in built if not rejects(x[1])] + ([] if rejects(d) else [d])
        cand = [s for s in allc if not pure_(s)]
        def sub_arm(s):
            """the arm is one nested grammar on a region, its value possibly wrapped (`k => Ctor(p_k(region)?.1)`)"""
            if not (len(s["steps"]) == 1 and s["steps"][0][0] == "sub" and s["ret"] and s["ret"][0] == "ok"):
                return False
            if s["ret"] == ["ok", V(s["steps"][0][1])]:
                return True
            isq = s["steps"][0][3]
            return occurs(s["ret"][1], V(s["steps"][0][1])) and isq["ret"] and isq["ret"][0] == "ok"
        if len(cand) >= 2 and all(sub_arm(s) for s in cand) \
                and all(s["steps"][0][2] == cand[0]["steps"][0][2] for s in cand) and not occurs(scrut, V(cand[0]["steps"][0][1])):
            region = cand[0]["steps"][0][2]
            def inner(s):
                if rejects(s) or pure_(s):
                    return s
                isq = s["steps"][0][3]
                if s["ret"] == ["ok", V(s["steps"][0][1])]:
                    return isq
                return {"steps": isq["steps"], "ret": ["ok", subst(s["ret"][1], V(s["steps"][0][1]), isq["ret"][1])]}
            sb_ = self.counter.fresh()
            ib_ = self.counter.fresh()
            flat_ = sorted([[c, inner(s)] for cs, s, _ in built for c in cs], key=lambda x_: x_[0])
            import copy
            canon_of_ = {}
            for ent in flat_:
                key_ = json.dumps(renumber(copy.deepcopy(ent[1])), sort_keys=True)
                ent[1] = canon_of_.setdefault(key_, ent[1])
            nested = {"steps": [["switch", ib_, scrut, flat_, inner(d)]], "ret": ["ok", V(ib_)]}
            self.steps.append(["sub", sb_, region, nested])
            return V(sb_)
        if len(built) == 1 and built[0][0] == [0] and not built[0][1]["steps"] and built[0][1]["ret"] == ["ok", NONE] and len(d["steps"]) == 1 and d["steps"][0][0] == "bytes" \
                and d["steps"][0][2] == scrut and d["ret"] == ["ok", some(V(d["steps"][0][1]))]:
            self.steps.append(d["steps"][0])
            self._adv()
            return ["nonempty", V(d["steps"][0][1])]
        if len(built) == 1 and len(built[0][0]) == 1:
            wc = self._wrapped_cond(eq(N(built[0][0][0]), scrut), built[0][1], d, built[0][2], dchild)
            if wc is not None:
                return wc
        live = [x for x in built if not rejects(x[1])]
        # `match x { c => body, _ => Err }` is a guard (reject unless x == c) followed by body;
        # `match x { c => Err, _ => body }` is a guard (reject if x == c) followed by body
        if built and rejects(d) and len(live) == 1 and live[0][2] is not None:
            cond_ = None
            for c in live[0][0]:
                t = ne(scrut, N(c))
                cond_ = t if cond_ is None else land(cond_, t)
            self.guard(cond_, d["ret"][1])
            return self._splice(live[0][1], live[0][2])
        if built and not live and not rejects(d) and dchild is not None:
            for consts, s, _ in built:
                for c in consts:
                    self.guard(eq(scrut, N(c)), s["ret"][1])
            return self._splice(d, dchild)
        # an arm that does what the default does is not an arm (`40 => Unknown(t, d)` next to `_ => Unknown(t, d)`)
        import copy as _copy
        dkey = json.dumps(renumber(_copy.deepcopy(d)), sort_keys=True)
        built = [x for x in built if json.dumps(renumber(_copy.deepcopy(x[1])), sort_keys=True) != dkey]
        if not built:
            if dchild is not None:
                return self._splice(d, dchild)
            self.steps.extend(d["steps"])
            self._adv()
            if d["ret"][0] == "err":
                raise Fail(d["ret"][1], d["ret"][2])
            return d["ret"][1]
        b = self.counter.fresh()
        a2 = [[consts, s] for consts, s, _ in built]
        a2.sort(key=lambda x: x[0])
        # merge arms with identical bodies? no: keep one entry per constant for comparison
        flat = []
        for consts, s in a2:
            for c in consts:
                flat.append([c, s])
        flat.sort(key=lambda x: x[0])
        # arms with the same grammar (up to binder names) share one sequence, whether the source wrote them as one
        # or-pattern / range arm or as separate arms: binder numbering must not depend on that
        import copy
        canon_of = {}
        for ent in flat:
            key = json.dumps(renumber(copy.deepcopy(ent[1])), sort_keys=True)
            ent[1] = canon_of.setdefault(key, ent[1])
        self.steps.append(["switch", b, scrut, flat, d])
        kids = [x[2] for x in built] + [dchild]
        if any(k is None or k.cur != self.cur for k in kids):
            self._adv()
        return V(b)

    def param_parser(self, name):
        b = self.counter.fresh()
        self.steps.append(["param_parser", b, name])
        self._adv()
        return V(b)

    def opaque(self, text):
        b = self.counter.fresh()
        self.steps.append(["opaque", b, text])
        self._adv()
        return V(b)

    def whole(self):
        """value = all remaining bytes; remainder empty"""
        b = self.counter.fresh()
        self.steps.append(["bytes", b, REMAINING, "X"])
        self._adv()
        return V(b)

    # common composites for specs
    def ld(self, bits, mode="S"):
        n = self.u(bits, "be", mode)
        return self.bytes(n, mode)


def build(fn):
    b = Builder()
    return renumber(b.run(fn, top=True))


def renumber(seq):
    """name binders b0, b1, ... in pre-order of the steps that define them (independent of the order in which
    nested sequences happened to be built)"""
    order = []

    def visit(sq):
        for st in sq["steps"]:
            if len(st) > 1 and isinstance(st[1], str) and re.fullmatch(r"b\d+", st[1]) and st[0] != "tag":
                order.append(st[1])
            for x in st:
                if isinstance(x, dict):
                    visit(x)
                elif isinstance(x, list):
                    for y in x:
                        if isinstance(y, dict):
                            visit(y)
                        elif isinstance(y, list) and len(y) == 2 and isinstance(y[1], dict):
                            visit(y[1])
    visit(seq)
    m = {}
    for o in order:
        m.setdefault(o, "b%d" % len(m))

    def ren(x):
        if isinstance(x, dict):
            return {"steps": [ren(s) for s in x["steps"]], "ret": ren(x["ret"])}
        if isinstance(x, list):
            return [ren(y) for y in x]
        if isinstance(x, str) and x in m:
            return "\x00" + m[x]
        return x

    def unmark(x):
        if isinstance(x, dict):
            return {"steps": [unmark(s) for s in x["steps"]], "ret": unmark(x["ret"])}
        if isinstance(x, list):
            return [unmark(y) for y in x]
        if isinstance(x, str) and x.startswith("\x00"):
            return x[1:]
        return x
    return unmark(ren(seq))


# ------------------------------------------------------------------------------- effects
def may_incomplete(seq, under_complete=False):
    """can this sequence answer Err::Incomplete? (streaming leaf outside any `complete`)"""
    for st in seq["steps"]:
        k = st[0]
        if k in ("u", "bytes", "tag"):
            if st[-1] == "S" and not under_complete:
                return True
        elif k == "complete":
            continue
        elif k in ("peek", "opt", "many0", "many1", "all_consuming", "cut"):
            if may_incomplete(st[2], under_complete):
                return True
        elif k in ("sub", "cond", "count"):
            if may_incomplete(st[3], under_complete):
                return True
        elif k == "alt":
            if any(may_incomplete(s, under_complete) for s in st[2]):
                return True
        elif k == "ite":
            if may_incomplete(st[3], under_complete) or may_incomplete(st[4], under_complete):
                return True
        elif k == "switch":
            if any(may_incomplete(s, under_complete) for _, s in st[3]) or may_incomplete(st[4], under_complete):
                return True
        elif k in ("opaque", "param_parser"):
            return True
    return False


def incomplete_sites(seq, path=""):
    out = []
    for i, st in enumerate(seq["steps"]):
        k = st[0]
        p = "%s/%d:%s" % (path, i, k)
        if k in ("u", "bytes", "tag") and st[-1] == "S":
            out.append(p)
        elif k == "complete":
            continue
        elif k in ("peek", "opt", "many0", "many1", "all_consuming", "cut"):
            out += incomplete_sites(st[2], p)
        elif k in ("sub", "cond", "count"):
            out += incomplete_sites(st[3], p)
        elif k == "alt":
            for s in st[2]:
                out += incomplete_sites(s, p)
        elif k == "ite":
            out += incomplete_sites(st[3], p) + incomplete_sites(st[4], p)
        elif k == "switch":
            for c, s in st[3]:
                out += incomplete_sites(s, "%s[%s]" % (p, c))
            out += incomplete_sites(st[4], p + "[default]")
        elif k in ("opaque", "param_parser"):
            out.append(p)
    return out


def can_error(seq):
    """can return Err::Error (needed under many0/many1)"""
    for st in seq["steps"]:
        k = st[0]
        if k in ("guard", "tag", "complete", "alt", "many1", "all_consuming", "opaque", "param_parser"):
            return True
        if k in ("u", "bytes") and st[-1] in ("C",):
            return True
        if k in ("peek", "opt", "many0", "cut") and can_error(st[2]) and k not in ("opt", "many0"):
            return True
        if k in ("sub", "cond", "count") and can_error(st[3]):
            return True
        if k == "ite" and (can_error(st[3]) or can_error(st[4])):
            return True
        if k == "switch":
            return True
    r = seq["ret"]
    return bool(r and r[0] == "err")


def consumes_always(seq):
    """every successful run consumes at least one byte (sufficient syntactic condition)"""
    for st in seq["steps"]:
        k = st[0]
        if k == "u":
            return True
        if k == "tag" and st[1]:
            return True
        if k == "bytes" and st[2][0] == "n" and st[2][1] > 0:
            return True
        if k in ("complete", "many1", "cut", "all_consuming") and consumes_always(st[2]):
            return True
        if k == "ite" and consumes_always(st[3]) and consumes_always(st[4]):
            return True
        if k == "switch" and all(consumes_always(s) for _, s in st[3]) and (consumes_always(st[4]) or (st[4]["ret"] and st[4]["ret"][0] == "err")):
            return True
    return False


def walk_steps(seq, fn, path=""):
    for i, st in enumerate(seq["steps"]):
        p = "%s/%d" % (path, i)
        fn(st, p)
        k = st[0]
        if k in ("peek", "opt", "complete", "many0", "many1", "all_consuming", "cut"):
            walk_steps(st[2], fn, p)
        elif k in ("sub", "cond", "count"):
            walk_steps(st[3], fn, p)
        elif k == "alt":
            for s in st[2]:
                walk_steps(s, fn, p)
        elif k == "ite":
            walk_steps(st[3], fn, p)
            walk_steps(st[4], fn, p)
        elif k == "switch":
            for c, s in st[3]:
                walk_steps(s, fn, "%s[%s]" % (p, c))
            walk_steps(st[4], fn, p + "[default]")


def find_opaque(x, acc=None):
    acc = [] if acc is None else acc
    if isinstance(x, dict):
        for v in x.values():
            find_opaque(v, acc)
    elif isinstance(x, list):
        if x and x[0] == "opaque":
            acc.append(x)
        for v in x:
            find_opaque(v, acc)
    return acc


# ------------------------------------------------------------------------------- diff
def diff(a, b, path=""):
    """first structural difference between two canonical values (a = expected/spec, b = found/code).
    Error kinds that are None on the spec side are wildcards."""
    if isinstance(a, dict) and isinstance(b, dict):
        sa, sb = a["steps"], b["steps"]
        for i in range(min(len(sa), len(sb))):
            d = diff(sa[i], sb[i], "%s/%d" % (path, i))
            if d:
                return d
        if len(sa) != len(sb):
            extra = sa[len(sb)] if len(sa) > len(sb) else sb[len(sa)]
            return "%s: step count differs (expected %d, found %d); first unmatched step: %s" % (path, len(sa), len(sb), json.dumps(extra)[:300])
        return diff(a["ret"], b["ret"], path + "/ret")
    if isinstance(a, list) and isinstance(b, list):
        if a and b and a[0] == "guard" and b[0] == "guard":
            d = diff(a[1], b[1], path + ":guard")
            if d:
                return d
            if a[2] is not None and a[2] != b[2]:
                return "%s: guard error kind expected %s found %s" % (path, a[2], b[2])
            return None
        if a and b and a[0] == "err" and b[0] == "err":
            if a[1] is not None and a[1] != b[1]:
                return "%s: error kind expected %s found %s" % (path, a[1], b[1])
            if len(a) > 2 and len(b) > 2 and a[2] != b[2]:
                return "%s: error severity expected %s found %s" % (path, a[2], b[2])
            return None
        if len(a) != len(b):
            return "%s: expected %s found %s" % (path, brief(a), brief(b))
        for i, (x, y) in enumerate(zip(a, b)):
            d = diff(x, y, path + (":%s" % a[0] if i == 1 and isinstance(a[0], str) else ""))
            if d:
                return d
        return None
    if a != b:
        return "%s: expected %s found %s" % (path, brief(a), brief(b))
    return None


def brief(x):
    if isinstance(x, list) and x and isinstance(x[0], str) and x[0] in ("v", "n", "op", "not", "ctor", "struct", "unit", "fld", "cast", "tuple", "vec", "p", "be16", "len", "remaining", "call", "mcall", "lam", "lp"):
        return sym_str(x)[:300]
    s = json.dumps(x)
    return s if len(s) < 300 else s[:300] + "..."


# ------------------------------------------------------------------------------- HIR evaluator
NOM_PRIM = {}
for _w in (8, 16, 24, 32, 64):
    for _e in ("be", "le"):
        NOM_PRIM["nom::number::streaming::%s_u%d" % (_e, _w)] = (_w, _e, "S")
        NOM_PRIM["nom::number::complete::%s_u%d" % (_e, _w)] = (_w, _e, "C")
NOM_PRIM["nom::number::streaming::u8"] = (8, "be", "S")
NOM_PRIM["nom::number::complete::u8"] = (8, "be", "C")

ERR_CTOR = {"nom::internal::Err::Error": "Error", "nom::internal::Err::Failure": "Failure"}


class Closure:
    def __init__(self, hir, env, gen):
        self.hir = hir
        self.env = env
        self.gen = gen


class FnVal:
    """a function named by a path (fn item or tuple-struct / variant constructor) held in a local or passed to a helper:
    usable as a parser (applied to the input) or as a mapping function, whichever its use site asks for"""
    def __init__(self, hir):
        self.hir = hir


class ParserChoice:
    """a parser chosen by a match / if / helper returning a fn pointer (possibly inside an Option): evaluated where it is applied"""
    def __init__(self, hir, env, gen, tok):
        self.hir, self.env, self.gen, self.tok = hir, env, gen, tok


class ParserIter:
    """`let mut it = nom::combinator::iterator(region, p);`: the entries of the region, walked when collected"""
    def __init__(self, region, parser):
        self.region, self.parser = region, parser


class LazyResult:
    """`let res = <Result-typed expression>;` not yet looked at: evaluated where `res` is used (returned, matched, `?`)"""
    def __init__(self, hir, env, gen, tok):
        self.hir, self.env, self.gen, self.tok = hir, env, gen, tok


class ParserFn:
    """a parser-valued thing that can be applied to a builder"""

    def __init__(self, apply, desc=""):
        self.apply = apply
        self.desc = desc


class Ev:
    def __init__(self, facts, notes=None):
        self.facts = facts
        self.notes = notes if notes is not None else []
        self.depth = 0
        self.called = set()
        self.anomalies = []  # REGION-USE / REMAINDER anomalies

    # ---------------------------------------------------------------- entry
    def fn_seq(self, path, gen_args=(), extra=None):
        """canonical sequence of a named parser function applied to a fresh input; non-input
        parameters are symbolic ("p", name) unless given in extra (list of syms)."""
        f = self.facts.fn(path)
        if f is None or "hir" not in f:
            raise KeyError(path)

        def body(b):
            return self.call_parser_fn(f, gen_args, None, extra, b)

        return build(body)

    # ---------------------------------------------------------------- calling a local parser fn
    def call_parser_fn(self, f, gen_args, args_exprs_env, extra_syms, b, input_index=0):
        """Evaluate the body of local fn f as a parser on builder b.
        First parameter is the input; the others are bound to extra_syms or symbolic params."""
        self.called.add(f["path"])
        if self.depth > 40:
            raise Opaque("recursion depth")
        env = {}
        gen = {}
        gp = [g.split(":")[0] for g in f.get("generics", []) if "Const" in g]
        for name, val in zip(gp, [a for a in gen_args if a in ("true", "false") or a.isdigit() or "/#" in a]):
            gen[name] = val
        params = f["params"]
        if not params:
            raise Opaque("parser fn without parameters: " + f["path"])
        if input_index >= len(params):
            input_index = 0
        if input_index == 0 and extra_syms is None and not re.fullmatch(r"&(?:'\w+ )?\[u8\]", params[0].get("ty", "")):
            for j_, p_ in enumerate(params):
                if re.fullmatch(r"&(?:'\w+ )?\[u8\]", p_.get("ty", "")):
                    input_index = j_
                    break
        self.bind_pat(params[input_index], b.tok(), env)
        for idx, p in enumerate(params[:input_index] + params[input_index + 1:]):
            if extra_syms is not None and idx < len(extra_syms):
                val = extra_syms[idx]
            else:
                val = P("arg%d" % (idx + 1))  # positional: parameter names are not part of the behaviour
            self.bind_pat(p, val, env)
        self.depth += 1
        try:
            return self.eval_result_block(f["hir"], env, gen, b)
        finally:
            self.depth -= 1

    # ---------------------------------------------------------------- patterns (binding only)
    def bind_pat(self, p, val, env):
        k = p["k"]
        if k == "wild":
            return
        if k == "bind":
            env[p["id"]] = val
            if p.get("sub"):
                self.bind_pat(p["sub"], val, env)
            return
        if k in ("pref", "pderef"):
            return self.bind_pat(p["pat"], val, env)
        if k == "ptuple":
            for i, sp in enumerate(p["pats"]):
                if isinstance(val, list) and val and val[0] == "tuple" and i < len(val[1]):
                    self.bind_pat(sp, val[1][i], env)
                else:
                    self.bind_pat(sp, fld(val, str(i)), env)
            return
        if k == "ptuplestruct":
            for i, sp in enumerate(p["pats"]):
                self.bind_pat(sp, fld(val, str(i)), env)
            return
        if k == "pstruct":
            for f in p["fields"]:
                self.bind_pat(f["pat"], fld(val, f["name"]), env)
            return
        if k == "pslice" and p.get("mid") is None and not p.get("after"):
            pats = p["before"]
            for i, sp in enumerate(pats):
                if isinstance(val, list) and len(val) == 2 and val[0] == "array" and isinstance(val[1], list) and len(val[1]) == len(pats):
                    self.bind_pat(sp, val[1][i], env)
                else:
                    self.bind_pat(sp, ["idx", val, N(i)], env)
            return
        raise Opaque("binding pattern " + k)

    # ---------------------------------------------------------------- result-typed expressions
    def eval_result_block(self, e, env, gen, b):
        """e evaluates to IResult<..>; emit steps into b, return the value sym (raise Fail on error return).
        The returned remainder must be b's current token (checked)."""
        e = strip(e)
        k = e["k"]
        if k == "block":
            env = dict(env)
            stmts = e["stmts"]
            for idx, s in enumerate(stmts):
                r = self.eval_stmt(s, env, gen, b, stmts[idx + 1:], e["expr"])
                if r is not None:
                    return r[0]
            if e["expr"] is None:
                raise Opaque("block without tail in result position")
            return self.eval_result_block(e["expr"], env, gen, b)
        if k == "ret":
            return self.eval_result_block(e["x"], env, gen, b)
        if k == "if" and strip(e["c"])["k"] == "letexpr" and e.get("f") is not None:
            le_ = strip(e["c"])
            p_ = le_["pat"]
            if p_["k"] == "ptuplestruct" and p_["res"].get("path") == "core::option::Option::Some" and len(p_["pats"]) == 1 and p_["pats"][0]["k"] == "bind":
                # if let Some(x) = <Option chosen by control flow> { A(x) } else { B }
                bid = p_["pats"][0]["id"]
                def leaf(x, env2, nb):
                    env3 = dict(env)
                    env3[bid] = self.sym_or_closure(x, env2, gen)
                    return self.eval_result_block(e["t"], env3, gen, nb)
                return self.eval_choice(le_["init"], env, gen, b, leaf, lambda nb: self.eval_result_block(e["f"], env, gen, nb))
        if k == "if":
            c = self.sym(e["c"], env, gen)
            if e.get("f") is None:
                raise Opaque("if without else in result position")
            return b.ite(c, lambda nb: self.eval_result_block(e["t"], env, gen, nb), lambda nb: self.eval_result_block(e["f"], env, gen, nb))
        if k == "local" and isinstance(env.get(e["id"]), LazyResult):
            lz = env[e["id"]]
            if b.cur != lz.tok:
                raise Opaque("a parser result bound before other reads is used after them")
            return self.eval_result_block(lz.hir, lz.env, lz.gen, b)
        if k == "match":
            inner = is_try(e)
            if inner is not None:
                # `expr?` in result position: expr is Result<(rem,val)>; the ? yields the tuple - not a Result
                raise Opaque("? in result position")
            moc = self.manual_opt_complete(e, env, gen, b)
            if moc is not None:
                return moc
            mu8 = self.manual_u8(e, env, gen, b)
            if mu8 is not None:
                return mu8
            if self.is_manual_alt(e):
                # nom's alt((p, q)) written out: on a recoverable error of p, q runs on the same input
                return b.alt([lambda nb: self.eval_result_block(e["scrut"], env, gen, nb), lambda nb: self.eval_result_block(e["arms"][0]["body"], env, gen, nb)])
            if self.is_manual_complete(e):
                # nom's `complete` written out: Incomplete becomes Error(Complete), everything else passes
                return b.complete(lambda nb: self.eval_result_block(e["scrut"], env, gen, nb))
            return self.eval_match(e, env, gen, b, lambda body, env2, nb: self.eval_result_block(body, env2, gen, nb))
        if k == "call":
            f = strip(e["f"])
            fp = path_of(f)
            if fp == "core::result::Result::Ok":
                return self.eval_ok_tuple(e["args"][0], env, gen, b)
            if fp == "core::result::Result::Err":
                kind, sev = self.err_kind(e["args"][0])
                if sev == "Incomplete":
                    # keep what is asked for: Needed::new(X) / Needed::Unknown
                    inc = strip(strip(e["args"][0])["args"][0]) if strip(e["args"][0]).get("args") else None
                    if inc is not None and inc["k"] == "call" and path_of(inc["f"]) == "nom::internal::Needed::new" and len(inc["args"]) == 1:
                        kind = "Incomplete:" + json.dumps(self.sym(inc["args"][0], env, gen))
                b.fail(kind, sev)
            tok_ = self.input_of(e, env, gen)
            if tok_ is not None and tok_[0] in ("tok", "v") and not b.is_cur(tok_):
                # a parser applied, in result position, to something other than the current input
                if tok_[0] == "v" and not b.drops_remainder:
                    # `return p(region)`: what is handed back as the remainder is what p left of the region, not the
                    # input after the region
                    self.anomalies.append(("REMAINDER", "the result of a parser applied to a region is returned as it is: the remainder is the region's, not the input's", short_loc(e.get("loc"))))
                return self.apply_result_expr(e, env, gen, b, rem_wild=False)
            return self.apply_call(e, env, gen, b)
        if k == "mcall":
            nm = e.get("path", "")
            if nm == "core::result::Result::<T, E>::map":
                v = self.eval_result_block(e["recv"], env, gen, b)
                clo = strip(e["args"][0])
                if clo["k"] == "closure" and len(clo["params"]) == 1 and clo["params"][0]["k"] == "ptuple" and len(clo["params"][0]["pats"]) == 2:
                    env2 = dict(env)
                    rem_tok = b.tok()
                    self.bind_pat(clo["params"][0]["pats"][0], rem_tok, env2)
                    self.bind_pat(clo["params"][0]["pats"][1], v, env2)
                    body = strip(clo["body"])
                    if body["k"] == "tup" and len(body["xs"]) == 2:
                        r = self.sym(body["xs"][0], env2, gen)
                        if r != rem_tok:
                            self.anomalies.append(("REMAINDER", "Result::map closure changes the remainder", short_loc(e.get("loc"))))
                        return self.sym(body["xs"][1], env2, gen)
                    sv = self.sym(body, env2, gen)
                    if isinstance(sv, list) and sv[0] == "tuple" and len(sv[1]) == 2:
                        if sv[1][0] != rem_tok:
                            self.anomalies.append(("REMAINDER", "Result::map closure changes the remainder", short_loc(e.get("loc"))))
                        return sv[1][1]
                raise Opaque("Result::map with unrecognised closure")
            if nm == "core::result::Result::<T, E>::and_then" and len(e["args"]) == 1:
                # r.and_then(|(rem, v)| next(rem, v))  is  let (rem, v) = r?; next(rem, v)
                clo = strip_ref(e["args"][0])
                if clo["k"] == "closure" and len(clo["params"]) == 1 and clo["params"][0]["k"] == "ptuple" and len(clo["params"][0]["pats"]) == 2:
                    v = self.eval_result_block(e["recv"], env, gen, b)
                    env2 = dict(env)
                    self.bind_pat(clo["params"][0]["pats"][0], b.tok(), env2)
                    self.bind_pat(clo["params"][0]["pats"][1], v, env2)
                    return self.eval_result_block(clo["body"], env2, gen, b)
                raise Opaque("Result::and_then with a function the analysis cannot read")
            if nm == "core::result::Result::<T, E>::map_err" and len(e["args"]) == 1 and self.is_incomplete_to_complete_mapper(e["args"][0], env):
                return b.complete(lambda nb: self.eval_result_block(e["recv"], env, gen, nb))
            if nm in ("core::option::Option::<T>::unwrap_or_else", "core::option::Option::<T>::unwrap_or") and len(e["args"]) == 1:
                # helper(..) -> Option<IResult>, None replaced by an error result
                return self.eval_choice(e, env, gen, b, lambda x, env2, nb: self.eval_result_block(x, env2, gen, nb), None)
            if nm == "nom::internal::Parser::parse" and len(e["args"]) == 1:
                # p.parse(i) is p(i)
                tok_ = self.sym(e["args"][0], env, gen)
                pf = self.parser_of(e["recv"], env, gen)
                if b.is_cur(tok_):
                    return pf.apply(b)
                if tok_[0] == "v":
                    return b.sub(tok_, pf.apply)
                raise Opaque("Parser::parse applied to something that is not the current input")
            raise Opaque("method call in result position: " + nm)
        raise Opaque("result expression kind " + k)

    def manual_u8(self, e, env, gen, b):
        """match i.split_first() { None => Err(Incomplete(Needed::new(1))), Some((&x, rest)) => Ok((rest, F(x))) }: be_u8 by hand;
        with constant first-byte patterns (`Some((&0x01, rest)) => A, Some(_) => B`) it is be_u8 followed by a dispatch on the byte"""
        sc = strip(e["scrut"])
        if not (sc["k"] == "mcall" and (sc.get("path") or "").endswith("::split_first") and len(e["arms"]) >= 2):
            return None
        if not b.is_cur(self.sym(sc["recv"], env, gen)):
            return None
        none_a, some_arms = None, []
        for a in e["arms"]:
            p = a["pat"]
            if a.get("guard"):
                return None
            if p["k"] == "pexpr" and p["e"].get("path") == "core::option::Option::None":
                if none_a is not None:
                    return None
                none_a = a
            elif p["k"] == "ptuplestruct" and p["res"].get("path") == "core::option::Option::Some" and len(p["pats"]) == 1:
                q = p["pats"][0]
                if q["k"] == "ptuple" and len(q["pats"]) == 2:
                    some_arms.append((a, q["pats"][0], q["pats"][1]))
                elif q["k"] in ("wild", "bind") and not q.get("sub"):
                    some_arms.append((a, {"k": "wild"}, {"k": "wild"}))
                else:
                    return None
            else:
                return None
        if none_a is None or not some_arms:
            return None
        nb_ = strip(none_a["body"])
        if not (nb_["k"] == "call" and path_of(nb_["f"]) == "core::result::Result::Err" and self.err_kind(nb_["args"][0])[1] == "Incomplete"):
            return None
        inc = strip(strip(nb_["args"][0])["args"][0])
        if not (inc["k"] == "call" and path_of(inc["f"]) == "nom::internal::Needed::new" and self.sym(inc["args"][0], env, gen) == N(1)):
            return None
        v = b.u(8, "be", "S")
        after = b.tok()
        cases, default = [], None
        for a, xp, rp_ in some_arms:
            q = xp
            while q["k"] in ("pref", "pderef"):
                q = q["pat"]
            consts = None
            if q["k"] in ("pexpr", "por", "prange"):
                consts, _ = self.pat_consts(q)
            def arm_fn(nb, a=a, xp=xp, rp_=rp_, is_const=consts is not None):
                env2 = dict(env)
                if not is_const:
                    self.bind_pat(xp, v, env2)
                self.bind_pat(rp_, after, env2)
                return self.eval_result_block(a["body"], env2, gen, nb)
            if consts is None:
                default = arm_fn
                break
            cases.append((consts, arm_fn))
        if default is None:
            return None
        if not cases:
            return default(b)
        return b.switch(v, cases, default)

    def manual_opt_complete(self, e, env, gen, b):
        """match p(i) { Ok((r, v)) => Ok((r, F(v))), Err(Failure(e)) => Err(Failure(e)), Err(Incomplete|Error) => Ok((i, G)) }
        with F(v), G = f(Some(v)), f(None): nom's opt(complete(p)) written out, value f(the Option)"""
        arms = e["arms"]
        def sub_matches(p, oc):
            k = p["k"]
            if k in ("wild", "bind"):
                return True
            if k == "por":
                return any(sub_matches(x, oc) for x in p["pats"])
            if k == "ptuplestruct" and p["res"].get("path", "").startswith("nom::internal::Err::"):
                return p["res"]["path"].split("::")[-1] == oc
            return False
        def matches(p, oc):
            k = p["k"]
            if k in ("wild", "bind"):
                return True
            if k == "por":
                return any(matches(x, oc) for x in p["pats"])
            if k == "ptuplestruct" and p["res"].get("path") == "core::result::Result::Ok":
                return oc == "Ok"
            if k == "ptuplestruct" and p["res"].get("path") == "core::result::Result::Err":
                return oc != "Ok" and (not p["pats"] or sub_matches(p["pats"][0], oc))
            return False
        def arm_for(oc):
            for a in arms:
                if a.get("guard") is None and matches(a["pat"], oc):
                    return a
            return None
        if any(a.get("guard") for a in arms) or not IRESULT_TY.match(strip(e["scrut"]).get("ty", "")):
            return None
        ok_a, inc_a, err_a, fail_a = arm_for("Ok"), arm_for("Incomplete"), arm_for("Error"), arm_for("Failure")
        if None in (ok_a, inc_a, err_a, fail_a) or inc_a is not err_a or ok_a is err_a or fail_a is err_a or fail_a is ok_a:
            return None
        p = ok_a["pat"]
        if not (p["k"] == "ptuplestruct" and len(p["pats"]) == 1 and p["pats"][0]["k"] == "ptuple" and len(p["pats"][0]["pats"]) == 2 and all(x["k"] == "bind" for x in p["pats"][0]["pats"])):
            return None
        rid, vid = p["pats"][0]["pats"][0]["id"], p["pats"][0]["pats"][1]["id"]
        ob = strip(ok_a["body"])
        fb = strip(err_a["body"])
        def ok_tuple(x):
            if x["k"] == "call" and path_of(x["f"]) == "core::result::Result::Ok" and strip(x["args"][0])["k"] == "tup" and len(strip(x["args"][0])["xs"]) == 2:
                return strip(x["args"][0])["xs"]
            return None
        ot, ft = ok_tuple(ob), ok_tuple(fb)
        if ot is None or ft is None:
            return None
        if not (strip(ot[0])["k"] == "local" and strip(ot[0])["id"] == rid):
            return None
        if not b.is_cur(self.sym(ft[0], env, gen)):
            return None
        # the Failure arm must hand the failure on
        fl = strip(fail_a["body"])
        fp_ = fail_a["pat"]
        passes = False
        if fp_["k"] == "bind" and fl["k"] == "local" and fl["id"] == fp_["id"]:
            passes = True
        elif fl["k"] == "call" and path_of(fl["f"]) == "core::result::Result::Err":
            inner = strip(fl["args"][0])
            if inner["k"] == "local":
                passes = True   # Err(e) => Err(e)
            elif inner["k"] == "call" and path_of(inner["f"]) == "nom::internal::Err::Failure" and strip(inner["args"][0])["k"] == "local":
                passes = True   # Err(Failure(e)) => Err(Failure(e))
        if not passes:
            return None
        env2 = dict(env)
        env2[vid] = ["lp", 0]
        F_ = self.sym(ot[1], env2, gen)
        G_ = self.sym(ft[1], env, gen)
        holes = []
        gen_ = antiunify(F_, G_, holes)
        if F_ == some(["lp", 0]) and G_ == NONE:
            gen_, holes = ["hole", 0], [(F_, G_)]
        if len(holes) != 1 or holes[0] != (some(["lp", 0]), NONE) or occurs(subst(gen_, ["hole", 0], ["x"]), ["lp", 0]):
            return None
        ov = b.opt(lambda nb: nb.complete(lambda nb2: self.eval_result_block(e["scrut"], env, gen, nb2)))
        return subst(gen_, ["hole", 0], ov)

    def is_manual_alt(self, e):
        arms = e["arms"]
        if len(arms) != 2 or arms[0].get("guard") or arms[1].get("guard"):
            return False
        p0, p1 = arms[0]["pat"], arms[1]["pat"]
        if not (p0["k"] == "ptuplestruct" and p0["res"].get("path") == "core::result::Result::Err" and len(p0["pats"]) == 1):
            return False
        q = p0["pats"][0]
        if not (q["k"] == "ptuplestruct" and q["res"].get("path") == "nom::internal::Err::Error" and len(q["pats"]) == 1 and q["pats"][0]["k"] == "wild"):
            return False
        b1 = strip(arms[1]["body"])
        return p1["k"] == "bind" and not p1.get("sub") and b1["k"] == "local" and b1["id"] == p1["id"] and IRESULT_TY.match(strip(arms[0]["body"]).get("ty", "")) is not None

    def is_incomplete_to_complete_mapper(self, fexpr, env):
        """|e| match e { Err::Incomplete(_) => Err::Error(make_error(_, Complete)), other => other } (possibly through a named fn)"""
        f = strip_ref(fexpr)
        body = None
        if f["k"] == "closure":
            body = strip(f["body"])
            if body["k"] == "block" and not body["stmts"] and body["expr"] is not None:
                body = strip(body["expr"])
            if body["k"] == "call" and path_of(body["f"]) and strip(body["f"]).get("local"):
                callee = self.facts.fn(strip(body["f"]).get("resolved") or path_of(body["f"]))
                body = strip(callee["hir"]) if callee else None
        elif f["k"] == "path" and f.get("local"):
            callee = self.facts.fn(f.get("resolved") or f["path"])
            body = strip(callee["hir"]) if callee else None
        while body is not None and body["k"] == "block" and not body["stmts"] and body["expr"] is not None:
            body = strip(body["expr"])
        if body is None or body["k"] != "match" or len(body["arms"]) != 2:
            return False
        a0, a1 = body["arms"]
        q = a0["pat"]
        if a0.get("guard") or a1.get("guard"):
            return False
        if not (q["k"] == "ptuplestruct" and q["res"].get("path") == "nom::internal::Err::Incomplete"):
            return False
        b0 = strip(a0["body"])
        if self.err_kind(b0) != ("Complete", "Error"):
            return False
        b1 = strip(a1["body"])
        return a1["pat"]["k"] == "bind" and b1["k"] == "local" and b1["id"] == a1["pat"]["id"]

    def is_manual_complete(self, e):
        arms = e["arms"]
        if len(arms) != 2 or arms[0].get("guard") or arms[1].get("guard"):
            return False
        p0, p1 = arms[0]["pat"], arms[1]["pat"]
        if not (p0["k"] == "ptuplestruct" and p0["res"].get("path") == "core::result::Result::Err" and len(p0["pats"]) == 1):
            return False
        q = p0["pats"][0]
        if not (q["k"] == "ptuplestruct" and q["res"].get("path") == "nom::internal::Err::Incomplete" and len(q["pats"]) == 1 and q["pats"][0]["k"] in ("wild", "bind")):
            return False
        b0 = strip(arms[0]["body"])
        if not (b0["k"] == "call" and path_of(b0["f"]) == "core::result::Result::Err" and self.err_kind(b0["args"][0]) == ("Complete", "Error")):
            return False
        b1 = strip(arms[1]["body"])
        return p1["k"] == "bind" and not p1.get("sub") and b1["k"] == "local" and b1["id"] == p1["id"]

    def eval_ok_tuple(self, t, env, gen, b):
        t = strip(t)
        cur = b.tok()
        if t["k"] != "tup" or len(t["xs"]) != 2:
            s_ = self.sym(t, env, gen)
            if isinstance(s_, list) and s_[0] == "tuple" and len(s_[1]) == 2:
                x_, y_ = s_[1]
                if x_[0] == "slice_to" and y_[0] == "slice_from" and x_[1] == y_[1] == ["tokbytes"] + cur[1:] and x_[2] == y_[2]:
                    # Ok(i.split_at(n)): a helper that returns (taken bytes, remainder) in that order
                    return ["swapped", b.bytes(x_[2], "X")]
            raise Opaque("Ok(non-tuple)")
        rem = self.sym(t["xs"][0], env, gen)
        val = self.sym(t["xs"][1], env, gen)
        if b.is_cur(rem):
            if isinstance(val, list) and val and val[0] == "ifv":
                # Ok((i, if c { A } else { B })): the choice is a (pure) branch of the grammar
                return b.ite(val[1], lambda nb: val[2], lambda nb: val[3])
            return val
        # remainder written by hand
        if rem == ["bytes_lit", []]:
            # consumes everything: the value normally mentions the input bytes
            w = b.whole()
            val = subst(subst(val, ["tokbytes"] + cur[1:], w), cur, w)
            return val
        if rem[0] == "slice_from" and rem[1] == ["tokbytes"] + cur[1:]:
            n = rem[2]
            r = b.bytes(n, "X")
            val = subst(val, ["slice_to", ["tokbytes"] + cur[1:], n], r)
            return val
        if rem[0] == "tok" and rem[1] in b.hist:
            self.anomalies.append(("REMAINDER", "returned remainder is an earlier position of the input (consumed bytes are handed back)", ""))
            b.steps.append(["rewind", len(b.hist) - b.hist.index(rem[1])])
            return val
        if rem[0] == "tok" and b.drops_remainder:
            # e.g. the catch-all arm of a dispatcher returning the outer remainder: the remainder of a region
            # parser is dropped by construction, so this cannot be observed
            if isinstance(val, list) and val and val[0] == "ifv":
                return b.ite(val[1], lambda nb: val[2], lambda nb: val[3])
            return val
        self.anomalies.append(("REMAINDER", "returned remainder is not the current input position: %s" % brief(rem), ""))
        b.steps.append(["opaque", b.counter.fresh(), "remainder " + brief(rem)])
        return val

    def err_kind_of(self, e, env):
        """err_kind, looking through a local bound by `let e = Err::Error(..);`"""
        e2 = strip(e)
        if e2["k"] == "local" and e2["id"] in env.get("__hir__", {}):
            return self.err_kind(env["__hir__"][e2["id"]])
        return self.err_kind(e2)

    def err_kind(self, e):
        """Err::Error(make_error(i, ErrorKind::X)) / Err::Error(Error::new(i, X)) / Err::Failure(..)"""
        e = strip(e)
        if e["k"] == "call":
            sev = ERR_CTOR.get(path_of(e["f"]))
            if sev and e["args"]:
                inner = strip(e["args"][0])
                if inner["k"] == "call" and path_of(inner["f"]) in ("nom::error::make_error", "nom::error::Error::<I>::new", "nom::error::ParseError::from_error_kind") and len(inner["args"]) == 2:
                    kp = path_of(inner["args"][1])
                    if kp and kp.startswith("nom::error::ErrorKind::"):
                        return kp.split("::")[-1], sev
                return "?", sev
            if path_of(e["f"]) == "nom::internal::Err::Incomplete":
                return "Incomplete", "Incomplete"
        return "?", "?"

    # ---------------------------------------------------------------- statements
    def eval_stmt(self, s, env, gen, b, rest, tail):
        """returns None to continue, or (value,) when the rest of the block has been consumed."""
        k = s["k"]
        if k == "let":
            init = s.get("init")
            if init is None:
                raise Opaque("let without init")
            ie = strip(init)
            pat = s["pat"]
            if ie["k"] == "call" and path_of(ie["f"]) == "nom::combinator::iterator" and len(ie["args"]) == 2 and pat["k"] == "bind":
                region = self.sym(ie["args"][0], env, gen)
                if region[0] != "v":
                    raise Opaque("parser iterator over something that is not a region")
                env[pat["id"]] = ParserIter(region, self.parser_of(ie["args"][1], env, gen))
                return None
            if ie["k"] == "mcall" and (ie.get("path") or "") == ITER + "collect" and strip_ref(ie["recv"]).get("k") == "local" and isinstance(env.get(strip_ref(ie["recv"])["id"]), ParserIter):
                # (&mut it).collect::<Vec<_>>() followed by it.finish()?  is  many0(p) over the region: both stop at the first
                # Err::Error and hand on Failure / Incomplete (without the finish()? those would be swallowed)
                it_id = strip_ref(ie["recv"])["id"]
                it = env[it_id]
                def is_finish(st_):
                    if st_["k"] not in ("semi", "sexpr"):
                        return False
                    x_ = is_try(st_["e"])
                    x_ = strip(x_) if x_ is not None else None
                    return x_ is not None and x_["k"] == "mcall" and (x_.get("path") or "").endswith("ParserIterator::<I, E, F>::finish") and strip_ref(x_["recv"]).get("id") == it_id
                if not (rest and is_finish(rest[0])):
                    raise Opaque("parser iterator collected without finish()? right after")
                self.bind_pat(pat, b.sub(it.region, lambda nb: nb.many0(it.parser.apply)), env)
                env[it_id] = ["opaque", "exhausted parser iterator"]
                return None
            tpl = self.as_tuple_result(ie, env, gen)
            if tpl is not None and pat["k"] == "ptuple" and len(pat["pats"]) == 2:
                rem_pat, val_pat = pat["pats"]
                val = self.eval_tuple_expr(ie, env, gen, b, rem_wild=(rem_pat["k"] == "wild"))
                if isinstance(val, list) and len(val) == 2 and val[0] == "swapped":
                    # the callee yields (value, remainder): the first component is the value
                    self.bind_pat(rem_pat, val[1], env)
                    self.bind_pat(val_pat, b.tok(), env)
                    return None
                if rem_pat["k"] != "wild":
                    self.bind_pat(rem_pat, b.tok(), env)
                self.bind_pat(val_pat, val, env)
                return None
            if s.get("els") is not None:
                # let PAT = init else { diverge }
                ie = {"k": "match", "scrut": init, "arms": [{"pat": pat, "guard": None, "body": {"k": "__bound__"}}, {"pat": {"k": "wild"}, "guard": None, "body": s["els"]}], "ty": ""}
                v = self.eval_let_else(ie, pat, env, gen, b)
                return None
            if has_effects(ie) and ie["k"] in ("match", "if") and is_try(ie) is None and (rest or tail is not None) and self.some_arm_returns_value(ie):
                # let x = match .. { A => v, B => return R };  REST   ==   match .. { A => { let x = v; REST }, B => R }
                rest_block = {"k": "block", "stmts": rest, "expr": tail}
                def arm_eval(body, env2, nb):
                    if self.diverges(body):
                        return self.eval_result_block(body, env2, gen, nb)
                    env3 = dict(env2)
                    vv = self.eval_value_expr(body, env2, gen, nb) if has_effects(body) else self.sym_or_closure(body, env2, gen)
                    self.bind_pat(pat, vv, env3)
                    return self.eval_result_block_noskip(rest_block, env3, gen, nb)
                if ie["k"] == "match":
                    return (self.eval_match(ie, env, gen, b, arm_eval),)
                c_ = self.sym(ie["c"], env, gen)
                return (b.ite(c_, lambda nb: arm_eval(ie["t"], env, nb), lambda nb: arm_eval(ie["f"], env, nb)),)
            if IRESULT_TY.match(ie.get("ty", "")) and pat["k"] == "bind" and not has_effects(ie) and ie["k"] in ("call", "mcall", "match", "if", "block"):
                env[pat["id"]] = LazyResult(ie, dict(env), gen, b.cur)
                return None
            if FNPTR_TY.match(ie.get("ty", "")) and ie["k"] in ("match", "if", "block", "call", "mcall"):
                # a parser picked by control flow (fn pointer): evaluated where it is applied
                v = ParserChoice(ie, dict(env), gen, b.cur)
            elif has_effects(ie):
                v = self.eval_value_expr(ie, env, gen, b)
                r_ = self.cps_selector(b, v, pat, env, gen, rest, tail)
                if r_ is not None:
                    return r_
            elif ie["k"] == "call" and pat["k"] == "bind" and PARSERISH_TY.search(ie.get("ty", "")) and not IRESULT_TY.match(ie.get("ty", "")):
                # let p = tuple((a, b, c));  -- a parser built by a combinator, applied later
                env_snap = dict(env)
                v = ParserFn(lambda nb, ie=ie, env_snap=env_snap: self.parser_of(ie, env_snap, gen).apply(nb), "let-bound parser")
            else:
                # pure let
                v = self.sym_or_closure(ie, env, gen)
                if pat["k"] == "bind":
                    hmap = dict(env.get("__hir__", {}))
                    hmap[pat["id"]] = ie
                    env["__hir__"] = hmap
            self.bind_pat(pat, v, env)
            return None
        if k in ("semi", "sexpr"):
            e = strip(s["e"])
            if e["k"] == "ret":
                return (self.eval_result_block(e["x"], env, gen, b),)
            if e["k"] == "if" and e.get("f") is None:
                c = self.sym(e["c"], env, gen)
                tb = strip(e["t"])
                # `if c { return R; }`  followed by the rest of the block
                rexpr = self.returns_expr(tb)
                if rexpr is not None:
                    rest_block = {"k": "block", "stmts": rest, "expr": tail}
                    v = b.ite(c, lambda nb: self.eval_result_block(rexpr, env, gen, nb),
                              lambda nb: self.eval_result_block_noskip(rest_block, env, gen, nb))
                    return (v,)
                if self.diverges(tb):
                    # if c { ..statements..; return R; }  REST
                    rest_block = {"k": "block", "stmts": rest, "expr": tail}
                    v = b.ite(c, lambda nb: self.eval_result_block(tb, env, gen, nb),
                              lambda nb: self.eval_result_block_noskip(rest_block, env, gen, nb))
                    return (v,)
                raise Opaque("statement-level if without return")
            if e["k"] == "assign":
                lhs = strip(e["a"])
                if lhs["k"] == "field" and strip(lhs["x"]).get("k") == "local" and isinstance(env.get(strip(lhs["x"])["id"]), list) and env[strip(lhs["x"])["id"]][0] == "struct":
                    sid = strip(lhs["x"])["id"]
                    sv = env[sid]
                    nv = self.eval_value_expr(e["b"], env, gen, b) if has_effects(e["b"]) else self.sym(e["b"], env, gen)
                    env[sid] = ["struct", sv[1], sorted([[k_, v_] for k_, v_ in sv[2] if k_ != lhs["name"]] + [[lhs["name"], nv]])]
                    return None
                raise Opaque("statement assign")
            if e["k"] == "mcall" and strip(e["recv"]).get("k") == "local" and strip(e["recv"])["id"] in env and not has_effects(e):
                # growth of a local Vec that is being assembled: records.push(x) / records.extend(xs)
                rid = strip(e["recv"])["id"]
                nm = e.get("path") or e["name"]
                old = env[rid]
                if nm.endswith("::push") and len(e["args"]) == 1 and isinstance(old, list):
                    x = self.sym(e["args"][0], env, gen)
                    env[rid] = ["vec", old[1] + [x]] if old[0] == "vec" else ["concat", old, ["vec", [x]]]
                    return None
                if (nm.endswith("::extend") or nm.endswith("::append") or nm.endswith("::extend_from_slice")) and len(e["args"]) == 1 and isinstance(old, list):
                    env[rid] = ["concat", old, self.sym(e["args"][0], env, gen)]
                    return None
            if e["k"] == "match" and is_try(e) is not None:
                inner = strip(is_try(e))
                if inner["k"] == "mcall" and (inner.get("path") or "").endswith("ParserIterator::<I, E, F>::finish") and env.get(strip_ref(inner["recv"]).get("id")) == ["opaque", "exhausted parser iterator"]:
                    return None   # accounted for where the iterator was collected
                if inner.get("ty", "").startswith("core::result::Result<(), "):
                    # `check(..)?;` - a guard helper returning Result<(), nom::Err<..>>
                    self.eval_unit_result(inner, env, gen, b)
                    return None
                # `expr?;` value discarded
                self.eval_tuple_expr(e, env, gen, b, rem_wild=False)
                return None
            raise Opaque("statement " + e["k"])
        if k == "item":
            return None
        raise Opaque("statement kind " + k)

    def option_split(self, sc):
        """for a value of type Option<T> built from known pieces: (condition under which it is None, the value it holds
        otherwise); None if the analysis cannot tell"""
        OPT = "core::option::Option::<T>::"
        if sc == NONE:
            return ["bool", True], None
        if sc[0] == "ctor" and sc[1] == "core::option::Option::Some" and len(sc[2]) == 1:
            return ["bool", False], sc[2][0]
        if sc[0] == "mcall" and re.fullmatch(r"core::num::<impl (u8|u16|u32|u64|usize)>::checked_sub", sc[1]) and len(sc[2]) == 2:
            a, c = sc[2]
            return lt(a, c), op("-", a, c)
        if sc[0] == "mcall" and sc[1] in ("core::bool::<impl bool>::then", "core::bool::<impl bool>::then_some") and len(sc[2]) == 2:
            c, v = sc[2]
            if sc[1].endswith("::then"):
                if not (v[0] == "lam" and v[1] == 0):
                    return None
                v = v[2]
            return negate(c), v
        if sc[0] == "mcall" and sc[1] == OPT + "filter" and len(sc[2]) == 2 and sc[2][1][0] == "lam" and sc[2][1][1] == 1:
            inner = self.option_split(sc[2][0])
            if inner is None or inner[1] is None:
                return None
            keep = recanon(subst(sc[2][1][2], ["lp", 0], inner[1]))
            return lor(inner[0], negate(keep)), inner[1]
        if sc[0] == "mcall" and sc[1] == OPT + "map" and len(sc[2]) == 2:
            inner = self.option_split(sc[2][0])
            f = sc[2][1]
            if inner is None or inner[1] is None:
                return None
            if f[0] == "lam" and f[1] == 1:
                return inner[0], recanon(subst(f[2], ["lp", 0], inner[1]))
            if f[0] == "unit" and re.fullmatch(r"core::convert::num::<impl core::convert::From<u(8|16|32)> for (u16|u32|u64|u128|usize)>::from", f[1]):
                return inner
            return None
        if sc[0] == "ifv" and sc[3] == NONE and sc[2][0] == "ctor" and sc[2][1] == "core::option::Option::Some":
            return negate(sc[1]), sc[2][2][0]
        if sc[0] == "ifv" and sc[2] == NONE and sc[3][0] == "ctor" and sc[3][1] == "core::option::Option::Some":
            return sc[1], sc[3][2][0]
        return None

    def eval_let_else(self, m, pat, env, gen, b):
        """`let Some(x) = opt else { return Err(..) };`"""
        sc = self.sym(m["scrut"], env, gen)
        sp = self.option_split(sc)
        p = pat
        if sp is None or not (p["k"] == "ptuplestruct" and p["res"]["path"] == "core::option::Option::Some" and len(p["pats"]) == 1):
            raise Opaque("let-else")
        none_c, val = sp
        els = m["arms"][1]["body"]
        def diverge(nb):
            self.eval_value_expr(els, env, gen, nb)
            raise Opaque("else branch of let-else does not diverge")
        b.ite(none_c, diverge, lambda nb: tup())
        self.bind_pat(p["pats"][0], val, env)
        return val

    def eval_value_expr(self, e, env, gen, b):
        """an expression of plain (non-Result) type that contains `?` or `return Err(..)`: emit its parser steps into b
        and return its value"""
        e = strip(e)
        if not has_effects(e):
            return self.sym(e, env, gen)
        k = e["k"]
        if k == "block":
            env2 = dict(env)
            for s in e["stmts"]:
                r = self.eval_stmt(s, env2, gen, b, [], None)
                if r is not None:
                    raise Opaque("return of a value inside a value block")
            if e["expr"] is None:
                return tup()
            return self.eval_value_expr(e["expr"], env2, gen, b)
        if k == "if":
            c = self.sym(e["c"], env, gen)
            if e.get("f") is None:
                raise Opaque("value if without else")
            return b.ite(c, lambda nb: self.eval_value_expr(e["t"], env, gen, nb), lambda nb: self.eval_value_expr(e["f"], env, gen, nb))
        if k == "ret":
            x = strip(e["x"])
            if x["k"] == "call" and path_of(x["f"]) == "core::result::Result::Err":
                kind, sev = self.err_kind(x["args"][0])
                b.fail(kind, sev)
            raise Opaque("early return of a non-error inside a value expression")
        if k == "match" and is_try(e) is not None:
            inner = strip(is_try(e))
            OPT = "core::option::Option::<T>::"
            if inner["k"] == "mcall" and inner.get("path") in (OPT + "ok_or", OPT + "ok_or_else") and len(inner["args"]) == 1:
                sc_ = self.sym(inner["recv"], env, gen)
                sp = self.option_split(sc_)
                a0 = strip_ref(inner["args"][0])
                errx = a0["body"] if a0["k"] == "closure" else a0
                kind, sev = self.err_kind_of(errx, env)
                if sp is None and sc_[0] == "matchv" and all(v_ == NONE or (v_[0] == "ctor" and v_[1] == "core::option::Option::Some") for _, v_ in sc_[2]):
                    # a table lookup `match x { k => Some(v), _ => None }`: a dispatch whose None arms reject
                    arms_, dflt_ = [], None
                    for cs_, v_ in sc_[2]:
                        fn_ = (lambda nb, v_=v_: nb.fail(kind, sev)) if v_ == NONE else (lambda nb, v_=v_: v_[2][0])
                        if cs_ is None:
                            dflt_ = fn_
                        else:
                            arms_.append((cs_, fn_))
                    if dflt_ is None:
                        raise Opaque("table lookup without catch-all")
                    scr_ = sc_[1][2][0] if (sc_[1][0] == "ctor" and len(sc_[1][2]) == 1) else sc_[1]
                    return b.switch(scr_, arms_, dflt_)
                if sp is None:
                    raise Opaque("ok_or on an Option the analysis cannot split")
                none_c, val = sp
                if val is None:
                    b.fail(kind, sev)
                if sev == "Error":
                    b.guard(none_c, kind)
                else:
                    b.ite(none_c, lambda nb: nb.fail(kind, sev), lambda nb: tup())
                return val
            raise Opaque("? on a value the analysis cannot read")
        if k == "match" and is_try(e) is None:
            arms = e["arms"]
            if len(arms) == 2:
                some_arm = none_arm = None
                for a in arms:
                    p = a["pat"]
                    if p["k"] == "ptuplestruct" and p["res"]["path"] == "core::option::Option::Some" and len(p["pats"]) == 1:
                        some_arm = a
                    elif (p["k"] == "pexpr" and p["e"].get("path") == "core::option::Option::None") or p["k"] == "wild":
                        none_arm = a
                if some_arm is not None and none_arm is not None and not some_arm.get("guard") and not none_arm.get("guard"):
                    sp = self.option_split(self.sym(e["scrut"], env, gen))
                    if sp is None:
                        raise Opaque("match on an Option the analysis cannot split")
                    none_c, val = sp
                    env_s = dict(env)
                    self.bind_pat(some_arm["pat"]["pats"][0], val, env_s)
                    return b.ite(none_c, lambda nb: self.eval_value_expr(none_arm["body"], env, gen, nb), lambda nb: self.eval_value_expr(some_arm["body"], env_s, gen, nb))
            return self.eval_match(e, env, gen, b, lambda body, env2, nb: self.eval_value_expr(body, env2, gen, nb))
        if k == "field" and e["name"] in ("0", "1") and is_try(e["x"]) is not None:
            # p(input)?.1 : the value of a parser application whose remainder is dropped (.0 : its remainder)
            if e["name"] == "1":
                return self.eval_tuple_expr(e["x"], env, gen, b, rem_wild=True)
            self.eval_tuple_expr(e["x"], env, gen, b, rem_wild=False)
            return b.tok()
        if k == "call" and strip(e["f"]).get("k") == "path" and strip(e["f"]).get("dk", "").startswith("Ctor"):
            return ctor(strip(e["f"])["path"], *[self.eval_value_expr(a_, env, gen, b) for a_ in e["args"]])
        if k == "struct" and e.get("base") is None:
            return ["struct", e["res"]["path"], sorted([f_["name"], self.eval_value_expr(f_["e"], env, gen, b)] for f_ in e["fields"])]
        raise Opaque("effectful value expression " + k)

    def apply_choice(self, v, b):
        if has_effects(v.hir) and b.cur != v.tok:
            raise Opaque("a parser chosen with an early return is applied after other reads")
        return self.eval_choice(v.hir, v.env, v.gen, b, lambda x, env2, nb: self.parser_of(x, env2, v.gen).apply(nb), None)

    def eval_choice(self, e, env, gen, b, leaf, none_handler, depth=0):
        """e chooses, by control flow, among leaves (parsers to apply / Result expressions to evaluate), possibly
        wrapped in Option (None handled by none_handler): emit the choice as a dispatch whose arms are the evaluated leaves"""
        e = strip(e)
        k = e["k"]
        if depth > 12:
            raise Opaque("choice nesting")
        rec = lambda x, env2, nb, nh=none_handler: self.eval_choice(x, env2, gen, nb, leaf, nh, depth + 1)
        OPT = "core::option::Option::<T>::"
        if k == "match":
            inner = is_try(e)
            if inner is not None:
                inner = strip(inner)
                if inner["k"] == "mcall" and inner.get("path") in (OPT + "ok_or", OPT + "ok_or_else"):
                    a0 = strip_ref(inner["args"][0])
                    errx, eenv = (a0["body"], env) if a0["k"] == "closure" else (a0, env)
                    def handler(nb, errx=errx, eenv=eenv):
                        kind, sev = self.err_kind_of(errx, eenv)
                        nb.fail(kind, sev)
                    return self.eval_choice(inner["recv"], env, gen, b, leaf, handler, depth + 1)
                raise Opaque("? inside a choice of parsers")
            return self.eval_match(e, env, gen, b, lambda body, env2, nb: rec(body, env2, nb))
        if k == "if" and e.get("f") is not None:
            c = self.sym(e["c"], env, gen)
            return b.ite(c, lambda nb: rec(e["t"], env, nb), lambda nb: rec(e["f"], env, nb))
        if k == "block":
            env2 = dict(env)
            for s in e["stmts"]:
                if s["k"] == "let" and s.get("init") is not None and s["pat"]["k"] == "bind" and has_effects(s["init"]) and strip(s["init"])["k"] in ("match", "if"):
                    # let res = match .. { .., _ => return None };   evaluated where `res` is used
                    env2[s["pat"]["id"]] = LazyResult(strip(s["init"]), dict(env2), gen, b.cur)
                    continue
                if s["k"] in ("semi", "sexpr") and strip(s["e"])["k"] == "ret":
                    return rec(strip(s["e"]), env2, b)
                if self.eval_stmt(s, env2, gen, b, [], None) is not None:
                    raise Opaque("return of a value inside a choice")
            if e["expr"] is None:
                raise Opaque("choice block without value")
            return rec(e["expr"], env2, b)
        if k == "ret":
            x = strip(e["x"])
            if x["k"] == "call" and path_of(x["f"]) == "core::result::Result::Err":
                kind, sev = self.err_kind(x["args"][0])
                b.fail(kind, sev)
            if (x["k"] == "path" and x.get("path") == "core::option::Option::None") or (x["k"] == "call" and path_of(x["f"]) == "core::option::Option::Some"):
                return rec(x, env, b)   # the helper returns this Option
            raise Opaque("early return of a non-error inside a choice")
        if k == "local" and isinstance(env.get(e["id"]), (LazyResult, ParserChoice)):
            lz = env[e["id"]]
            return self.eval_choice(lz.hir, lz.env, lz.gen, b, leaf, none_handler, depth + 1)
        if k == "path" and e.get("path") == "core::option::Option::None":
            if none_handler is None:
                raise Opaque("None without a handler in a choice")
            return none_handler(b)
        if k == "call":
            f = strip(e["f"])
            fp = path_of(f)
            if fp == "core::option::Option::Some" and len(e["args"]) == 1:
                return rec(e["args"][0], env, b)
            is_local = f.get("resolved_local") if f.get("resolved") else f.get("local")
            if f["k"] == "path" and f.get("dk") in ("Fn", "AssocFn") and is_local and OPT_OR_FN_TY.match(e.get("ty", "")):
                callee = self.facts.fn(f.get("resolved") or f["path"])
                if callee is None or len(callee["params"]) != len(e["args"]):
                    raise Opaque("helper of a choice")
                env2 = {}
                for p, a in zip(callee["params"], e["args"]):
                    self.bind_pat(p, self.sym_or_closure(a, env, gen), env2)
                self.called.add(callee["path"])
                jx = self.input_index(e)
                region = self.sym(e["args"][jx], env, gen) if re.fullmatch(r"&(?:'\w+ )?\[u8\]", strip(e["args"][jx]).get("ty", "")) else None
                if region is not None and region[0] == "v" and not b.is_cur(region):
                    # the helper works on a region its caller cut: everything it does happens inside that region
                    def inner(nb):
                        nb.input_alias, nb.alias_at = region, nb.cur
                        return self.eval_choice(callee["hir"], env2, {}, nb, leaf, none_handler, depth + 1)
                    return b.sub(region, inner)
                return self.eval_choice(callee["hir"], env2, {}, b, leaf, none_handler, depth + 1)
        if k == "mcall":
            p = e.get("path") or ""
            if p in ("core::bool::<impl bool>::then", "core::bool::<impl bool>::then_some") and len(e["args"]) == 1:
                if none_handler is None:
                    raise Opaque("bool::then without a handler for None")
                c = self.sym(e["recv"], env, gen)
                a0 = strip_ref(e["args"][0])
                body = a0["body"] if (a0["k"] == "closure" and p.endswith("::then")) else a0
                return b.ite(c, lambda nb: rec(body, env, nb), lambda nb: none_handler(nb))
            if p in (OPT + "unwrap_or_else", OPT + "unwrap_or") and len(e["args"]) == 1:
                a0 = strip_ref(e["args"][0])
                body = a0["body"] if (a0["k"] == "closure" and p.endswith("_else")) else a0
                return self.eval_choice(e["recv"], env, gen, b, leaf, lambda nb: self.eval_choice(body, env, gen, nb, leaf, None, depth + 1), depth + 1)
            is_local = e.get("resolved_local") if e.get("resolved") else e.get("local")
            if is_local and OPT_OR_FN_TY.match(e.get("ty", "")):
                callee = self.facts.fn(e.get("resolved") or p)
                if callee is not None and len(callee["params"]) == len(e["args"]) + 1:
                    env2 = {}
                    self.bind_pat(callee["params"][0], self.sym_or_closure(e["recv"], env, gen), env2)
                    for pp, a in zip(callee["params"][1:], e["args"]):
                        self.bind_pat(pp, self.sym_or_closure(a, env, gen), env2)
                    self.called.add(callee["path"])
                    return self.eval_choice(callee["hir"], env2, {}, b, leaf, none_handler, depth + 1)
        return leaf(e, env, b)

    def eval_unit_result(self, e, env, gen, b, depth=0):
        """e : Result<(), Err>.  Emits the guards it stands for."""
        e = strip(e)
        k = e["k"]
        if depth > 6:
            raise Opaque("guard helper nesting")
        if k == "call":
            f = strip(e["f"])
            fp = path_of(f)
            if fp == "core::result::Result::Ok":
                return
            if fp == "core::result::Result::Err":
                kind, sev = self.err_kind(e["args"][0])
                b.fail(kind, sev)
            if f["k"] == "path" and f.get("local") and f.get("dk") in ("Fn", "AssocFn"):
                callee = self.facts.fn(f.get("resolved") or f["path"])
                if callee is None:
                    raise Opaque("no body for guard helper")
                env2 = {}
                for p, a in zip(callee["params"], e["args"]):
                    self.bind_pat(p, self.sym_or_closure(a, env, gen), env2)
                return self.eval_unit_result(callee["hir"], env2, {}, b, depth + 1)
            raise Opaque("unit-result call " + str(fp))
        if k == "block":
            env = dict(env)
            for s in e["stmts"]:
                if s["k"] == "let" and s.get("init") is not None and s.get("els") is None:
                    self.bind_pat(s["pat"], self.sym_or_closure(s["init"], env, gen), env)
                elif s["k"] in ("semi", "sexpr"):
                    x = strip(s["e"])
                    if x["k"] == "if" and x.get("f") is None:
                        r = self.returns_expr(x["t"])
                        if r is None:
                            raise Opaque("statement in guard helper")
                        c = self.sym(x["c"], env, gen)
                        rr = strip(r)
                        if rr["k"] == "call" and path_of(rr["f"]) == "core::result::Result::Err":
                            kind, sev = self.err_kind(rr["args"][0])
                            if sev == "Error":
                                b.guard(c, kind)
                            else:
                                b.ite(c, lambda nb: nb.fail(kind, sev), lambda nb: tup())
                        else:
                            raise Opaque("guard helper returns a non-error early")
                    elif x["k"] == "ret":
                        return self.eval_unit_result(x["x"], env, gen, b, depth + 1)
                    elif x["k"] == "match" and is_try(x) is not None:
                        self.eval_unit_result(is_try(x), env, gen, b, depth + 1)
                    else:
                        raise Opaque("statement in guard helper")
                elif s["k"] == "item":
                    continue
                else:
                    raise Opaque("statement in guard helper")
            if e["expr"] is not None:
                return self.eval_unit_result(e["expr"], env, gen, b, depth + 1)
            return
        if k == "if":
            c = self.sym(e["c"], env, gen)
            b.ite(c, lambda nb: (self.eval_unit_result(e["t"], env, gen, nb, depth + 1), tup())[1],
                  lambda nb: (self.eval_unit_result(e["f"], env, gen, nb, depth + 1), tup())[1] if e.get("f") is not None else tup())
            return
        if k == "ret":
            return self.eval_unit_result(e["x"], env, gen, b, depth + 1)
        raise Opaque("unit-result expression " + k)

    def eval_result_block_noskip(self, blk, env, gen, b):
        env = dict(env)
        stmts = blk["stmts"]
        for idx, s in enumerate(stmts):
            r = self.eval_stmt(s, env, gen, b, stmts[idx + 1:], blk["expr"])
            if r is not None:
                return r[0]
        if blk["expr"] is None:
            raise Opaque("block without tail in result position")
        return self.eval_result_block(blk["expr"], env, gen, b)

    def cps_selector(self, b, v, pat, env, gen, rest, tail):
        """`let sel = <dispatch yielding constants>; REST`: REST is evaluated once per constant (inside the arms), so that
        what REST does with the selector (a cond on a bool, a const generic made a runtime flag) is specialised"""
        if not (rest or tail is not None) or not (isinstance(v, list) and v[0] == "v" and b.steps and b.steps[-1][0] in ("switch", "ite") and b.steps[-1][1] == v[1]):
            return None
        st = b.steps[-1]
        seqs = ([s for _, s in st[3]] + [st[4]]) if st[0] == "switch" else [st[3], st[4]]
        def const_ret(s):
            return not s["steps"] and s["ret"] and (s["ret"][0] == "err" or (s["ret"][0] == "ok" and s["ret"][1][0] in ("n", "bool", "unit")))
        if not all(const_ret(s) for s in seqs):
            return None
        b.steps.pop()
        rest_block = {"k": "block", "stmts": rest, "expr": tail}
        def cont(s):
            def fn(nb):
                if s["ret"][0] == "err":
                    nb.fail(s["ret"][1], s["ret"][2])
                env3 = dict(env)
                self.bind_pat(pat, s["ret"][1], env3)
                return self.eval_result_block_noskip(rest_block, env3, gen, nb)
            return fn
        if st[0] == "ite":
            return (b.ite(st[2], cont(st[3]), cont(st[4])),)
        groups = {}
        for c_, s in st[3]:
            groups.setdefault(id(s), (s, []))[1].append(c_)
        return (b.switch(st[2], [(cs, cont(s)) for s, cs in groups.values()], cont(st[4])),)

    def diverges(self, body):
        """does the arm body end in `return ..` (so that its value is the function's result)?"""
        b_ = strip(body)
        if b_["k"] == "ret":
            return True
        if b_["k"] == "block":
            if b_["expr"] is not None:
                return self.diverges(b_["expr"])
            if b_["stmts"] and b_["stmts"][-1]["k"] in ("semi", "sexpr"):
                return strip(b_["stmts"][-1]["e"])["k"] == "ret"
        return False

    def some_arm_returns_value(self, e):
        """an arm `return`s something other than a plain `Err(..)` literal (those are handled as guards)"""
        def rets(x):
            if isinstance(x, dict):
                if x.get("k") == "closure":
                    return
                if x.get("k") == "ret":
                    yield x
                for v in x.values():
                    yield from rets(v)
            elif isinstance(x, list):
                for v in x:
                    yield from rets(v)
        for r in rets(e):
            x = strip(r.get("x")) if r.get("x") is not None else None
            if not (x is not None and x["k"] == "call" and path_of(x["f"]) == "core::result::Result::Err"):
                return True
        return False

    def returns_expr(self, blk):
        """block `{ return X; }` -> X"""
        blk = strip(blk)
        if blk["k"] == "ret":
            return blk["x"]
        if blk["k"] == "block":
            if len(blk["stmts"]) == 1 and blk["expr"] is None and blk["stmts"][0]["k"] in ("semi", "sexpr"):
                x = strip(blk["stmts"][0]["e"])
                if x["k"] == "ret":
                    return x["x"]
            if not blk["stmts"] and blk["expr"] is not None:
                x = strip(blk["expr"])
                if x["k"] == "ret":
                    return x["x"]
        return None

    # ---------------------------------------------------------------- tuple-typed expressions (rem, val)
    def as_tuple_result(self, e, env, gen):
        """is e an expression of type (input, value) produced by parsing? (x?, if/match/block of such, or a tuple literal whose
        first component is an input token)"""
        e = strip(e)
        if is_try(e) is not None:
            return True
        k = e["k"]
        ty = e.get("ty", "")
        if k in ("if", "match", "block") and ty.startswith("(&") and "[u8]" in ty.split(",")[0]:
            return True
        return None

    def eval_tuple_expr(self, e, env, gen, b, rem_wild):
        e = strip(e)
        inner = is_try(e)
        if inner is not None:
            return self.apply_result_expr(inner, env, gen, b, rem_wild)
        k = e["k"]
        if k == "if":
            c = self.sym(e["c"], env, gen)
            return b.ite(c, lambda nb: self.eval_tuple_expr(e["t"], env, gen, nb, rem_wild), lambda nb: self.eval_tuple_expr(e["f"], env, gen, nb, rem_wild))
        if k == "block":
            env2 = dict(env)
            for s in e["stmts"]:
                r = self.eval_stmt(s, env2, gen, b, [], None)
                if r is not None:
                    raise Opaque("return inside tuple block")
            return self.eval_tuple_expr(e["expr"], env2, gen, b, rem_wild)
        if k == "tup" and len(e["xs"]) == 2:
            rem = self.sym(e["xs"][0], env, gen)
            if not b.is_cur(rem):
                self.anomalies.append(("REMAINDER", "tuple literal with foreign remainder", short_loc(e.get("loc"))))
            return self.sym(e["xs"][1], env, gen)
        if k == "match":
            return self.eval_match(e, env, gen, b, lambda body, env2, nb: self.eval_tuple_expr(body, env2, gen, nb, rem_wild))
        raise Opaque("tuple expression kind " + k)

    def apply_result_expr(self, e, env, gen, b, rem_wild):
        """e is Result-typed and its Ok tuple is destructured by the caller. Decide on which input it runs."""
        e = strip(e)
        tok = self.input_of(e, env, gen)
        cur = b.tok()
        if tok is None:
            # match / if / block of results: evaluate in place (arms decide)
            if e["k"] in ("match", "if", "block"):
                arms_tok = self.common_input(e, env, gen)
                if arms_tok is not None and not b.is_cur(arms_tok) and arms_tok[0] != "tok":
                    return self.sub_eval(e, env, gen, b, arms_tok)
            if not rem_wild:
                return self.eval_result_block(e, env, gen, b)
            # `let (_, v) = <choice of results>?`: whatever remainder the chosen result carries is dropped here
            saved = b.drops_remainder
            b.drops_remainder = True
            try:
                return self.eval_result_block(e, env, gen, b)
            finally:
                b.drops_remainder = saved
        if b.is_cur(tok):
            if rem_wild:
                return b.peek(lambda nb: self.eval_result_block(e, env, gen, nb))
            return self.eval_result_block(e, env, gen, b)
        if tok[0] == "tok":
            if b.seen_tok(tok[1]):
                self.anomalies.append(("REGION-USE", "parser applied to an earlier input position (re-reads consumed bytes)", short_loc(e.get("loc"))))
                b.steps.append(["rewind", len(b.hist) - b.hist.index(tok[1]) if tok[1] in b.hist else 0])
                return self.eval_result_block(e, self.env_retok(env, tok, cur), gen, b)
            self.anomalies.append(("REGION-USE", "parser applied to the input of an enclosing scope instead of the current region", short_loc(e.get("loc"))))
            return b.opaque("foreign input token")
        # a region value
        return self.sub_eval(e, env, gen, b, tok)

    def sub_eval(self, e, env, gen, b, region):
        def inner(nb):
            nb.input_alias, nb.alias_at = region, nb.cur
            return self.eval_result_block(e, env, gen, nb)
        return b.sub(region, inner)

    def env_retok(self, env, old, new):
        """make every local that denotes `old` (a token or region sym used as parser input) denote `new`"""
        env2 = {}
        for k, v in env.items():
            env2[k] = new if v == old else v
        env2["__alias__"] = dict(env.get("__alias__", {}))
        env2["__alias__"][json.dumps(new)] = old
        return env2

    def input_index(self, e):
        """which argument of a call is the parser input: the first one of type &[u8] (helpers may take it after
        their other parameters); 0 if none is typed that way"""
        for j, a in enumerate(e["args"]):
            ty = strip(a).get("ty", "")
            if re.fullmatch(r"&(?:'\w+ )?\[u8\]", ty):
                return j
        return 0

    def input_of(self, e, env, gen):
        """the input a Result-typed *application* runs on (sym), or None if e is not a direct application"""
        e = strip(e)
        if e["k"] == "call":
            f = strip(e["f"])
            fp = path_of(f)
            if fp in ("core::result::Result::Ok", "core::result::Result::Err"):
                return None
            if e["args"]:
                a0 = strip_ref(e["args"][self.input_index(e)])
                try:
                    v = self.sym(a0, env, gen)
                except Opaque:
                    return None
                return v
        if e["k"] == "mcall" and e.get("path") == "core::result::Result::<T, E>::map":
            return self.input_of(e["recv"], env, gen)
        return None

    def common_input(self, e, env, gen):
        """for match/if/block of result expressions: the common input of the applications in the arms (ignoring Ok/Err literals)"""
        e = strip(e)
        toks = []

        def collect(x):
            x = strip(x)
            if x["k"] == "match" and is_try(x) is None:
                for a in x["arms"]:
                    collect(a["body"])
            elif x["k"] == "if":
                collect(x["t"])
                if x.get("f"):
                    collect(x["f"])
            elif x["k"] == "block" and x["expr"] is not None and not x["stmts"]:
                collect(x["expr"])
            else:
                t = self.input_of(x, env, gen)
                if t is not None:
                    toks.append(t)
        collect(e)
        if not toks:
            return None
        first = toks[0]
        if all(t == first for t in toks):
            return first
        self.anomalies.append(("REGION-USE", "arms of one dispatch run on different inputs", short_loc(e.get("loc"))))
        return first

    # ---------------------------------------------------------------- match
    def eval_match(self, e, env, gen, b, arm_eval):
        scrut_e = e["scrut"]
        scrut = self.sym(scrut_e, env, gen)
        # strip newtype constructor around the scrutinee
        arms = e["arms"]
        # leading guard arms with wildcard pattern
        if arms and arms[0].get("guard") is not None and arms[0]["pat"]["k"] == "wild":
            g = self.sym(arms[0]["guard"], env, gen)
            rest = dict(e)
            rest["arms"] = arms[1:]
            return b.ite(g, lambda nb: arm_eval(arms[0]["body"], env, nb), lambda nb: self.eval_match(rest, env, gen, nb, arm_eval))
        def opt_pat(p_):
            while p_["k"] in ("pref", "pderef"):
                p_ = p_["pat"]
            if p_["k"] == "ptuplestruct" and p_["res"].get("path") == "core::option::Option::Some" and len(p_["pats"]) == 1:
                return "some", p_["pats"][0]
            if p_["k"] == "pexpr" and p_["e"].get("path") == "core::option::Option::None":
                return "none", None
            return None
        if any(opt_pat(a["pat"]) for a in arms):
            # match opt { Some(x) => A, None => B }: the two arms of `if opt.is_none() { B } else { A[x := payload] }`
            some_arm = none_arm = None
            for a in arms:
                if a.get("guard") is not None:
                    raise Opaque("guard on an Option match arm")
                op_ = opt_pat(a["pat"])
                if op_ and op_[0] == "some" and some_arm is None:
                    if op_[1]["k"] not in ("bind", "wild") or op_[1].get("sub"):
                        raise Opaque("Option match with a nested pattern")
                    some_arm = (a, op_[1])
                elif (op_ and op_[0] == "none" or a["pat"]["k"] == "wild") and none_arm is None:
                    none_arm = a
                else:
                    raise Opaque("Option match arms")
            if some_arm is None or none_arm is None:
                raise Opaque("Option match without both arms")
            sp = self.option_split(scrut)
            if sp is None:
                raise Opaque("match on an Option the analysis cannot split: " + brief(scrut))
            none_c, val = sp
            if val is None:
                return arm_eval(none_arm["body"], env, b)
            env_s = dict(env)
            self.bind_pat(some_arm[1], val, env_s)
            return b.ite(none_c, lambda nb: arm_eval(none_arm["body"], env, nb), lambda nb: arm_eval(some_arm[0]["body"], env_s, nb))
        if scrut[0] == "ctor" and len(scrut[2]) == 1:
            scrut_val = scrut[2][0]
        else:
            scrut_val = scrut
        cases = []
        default = None
        for idx, a in enumerate(arms):
            rc = self.range_cond(a["pat"], scrut_val) if a.get("guard") is None else None
            if rc is not None:
                # `lo..=hi => body` over a wide range: the arm is `if lo <= x && x <= hi { body } else { the other arms }`
                g, binds_g = rc
                env_g = dict(env)
                for bid in binds_g:
                    env_g[bid] = scrut
                rest = dict(e)
                rest["arms"] = arms[idx + 1:]
                default = ("guarded", g, a["body"], env_g, rest)
                break
            if a.get("guard") is not None:
                # `x if g => body` after constant arms: the catch-all of the switch so far is
                # `if g { body } else { match over the remaining arms }`
                consts_g, binds_g = self.pat_consts(a["pat"])
                if consts_g is not None:
                    raise Opaque("guard on a constant match arm")
                env_g = dict(env)
                for bid in binds_g:
                    env_g[bid] = scrut
                g = self.sym(a["guard"], env_g, gen)
                rest = dict(e)
                rest["arms"] = arms[idx + 1:]
                body_a = a["body"]
                default = ("guarded", g, body_a, env_g, rest)
                break
            consts, binds = self.pat_consts(a["pat"])
            if consts is None:
                env2 = dict(env)
                for bid in binds:
                    env2[bid] = scrut
                default = (a, env2)
                break
            cases.append((consts, a))
        if default is None and len(cases) == 2 and sorted(c for cs, _ in cases for c in cs) == [0, 1] and strip(scrut_e).get("ty") == "bool":
            arm_t = [a for cs, a in cases if cs == [1]][0]
            arm_f = [a for cs, a in cases if cs == [0]][0]
            return b.ite(scrut_val, lambda nb: arm_eval(arm_t["body"], env, nb), lambda nb: arm_eval(arm_f["body"], env, nb))
        if default is None:
            raise Opaque("match without catch-all arm")
        if default[0] == "guarded":
            _, g, body_a, env_g, rest = default
            dflt = lambda nb: nb.ite(g, lambda n2: arm_eval(body_a, env_g, n2), lambda n2: self.eval_match(rest, env, gen, n2, arm_eval))
        else:
            dflt = lambda nb: arm_eval(default[0]["body"], default[1], nb)
        if not cases:
            return dflt(b)
        return b.switch(scrut_val, [(c, (lambda a: (lambda nb: arm_eval(a["body"], env, nb)))(a)) for c, a in cases], dflt)

    def range_cond(self, p, x):
        """a range pattern (possibly `name @ lo..=hi`) covering more than 64 values: (condition on x, [binder ids])"""
        binds = []
        while p["k"] in ("pref", "pderef") or (p["k"] == "bind" and p.get("sub")):
            if p["k"] == "bind":
                binds.append(p["id"])
                p = p["sub"]
            else:
                p = p["pat"]
        if p["k"] != "prange":
            return None
        def val(z):
            if not z:
                return None
            return z.get("v", z.get("val"))
        lo, hi = val(p.get("lo")), val(p.get("hi"))
        if lo is None and p.get("lo"):
            return None
        if hi is None and p.get("hi"):
            return None
        if lo is not None and hi is not None and hi - lo <= 64:
            return None
        c = None
        if lo:
            c = le(N(lo), x)
        if hi is not None:
            h = le(x, N(hi)) if p["end"] == "Included" else lt(x, N(hi))
            c = h if c is None else land(c, h)
        if c is None:
            c = ["bool", True]
        return c, binds

    def pat_consts(self, p):
        """-> (list of ints, []) for constant patterns; (None, [binder ids]) for catch-all"""
        k = p["k"]
        if k == "wild":
            return None, []
        if k == "bind" and not p.get("sub"):
            return None, [p["id"]]
        if k in ("pref", "pderef"):
            return self.pat_consts(p["pat"])
        if k == "pexpr":
            e = p["e"]
            if e["k"] == "lit" and "v" in e:
                return [e["v"]], []
            if e["k"] == "lit" and "b" in e:
                return [1 if e["b"] else 0], []
            if e["k"] == "path" and "val" in e:
                return [e["val"]], []
            raise Opaque("constant pattern without value")
        if k == "por":
            out = []
            for sp in p["pats"]:
                c, _ = self.pat_consts(sp)
                if c is None:
                    return None, []
                out += c
            return out, []
        if k == "ptuplestruct" and len(p["pats"]) == 1 and p["res"].get("dk", "").startswith("Ctor(Struct"):
            # a newtype pattern `TlsVersion(0x0304)`; enum variants (Some(x), Ok(v)) are not transparent
            return self.pat_consts(p["pats"][0])
        if k == "prange":
            lo, hi = p.get("lo"), p.get("hi")
            lov = lo.get("v", lo.get("val")) if lo else None
            hiv = hi.get("v", hi.get("val")) if hi else None
            if lov is not None and hiv is not None and hiv - lov < 70000:
                end = hiv + (1 if p["end"] == "Included" else 0)
                return list(range(lov, end)), []
        raise Opaque("match pattern " + k)

    # ---------------------------------------------------------------- applications
    def apply_call(self, e, env, gen, b):
        """e = call expression of Result type: either parser_expr(input) or local_fn(input, extra...)"""
        f = strip(e["f"])
        args = e["args"]
        if not args:
            raise Opaque("result call without arguments")
        if f["k"] == "path" and f.get("dk") in ("Fn", "AssocFn"):
            target = f.get("resolved") or f["path"]
            is_local = f.get("resolved_local") if f.get("resolved") else f.get("local")
            if is_local:
                callee = self.facts.fn(target)
                if callee is None:
                    raise Opaque("no body for " + target)
                j = self.input_index(e)
                extra = [self.sym_or_closure(a, env, gen) for idx_, a in enumerate(args) if idx_ != j]
                gargs = [self.gen_subst(a, gen) for a in f.get("args", [])]
                return self.call_parser_fn(callee, gargs, None, extra, b, input_index=j)
            # foreign function applied directly, e.g. be_u16(i) or <u8 as Parse>::parse(i)
            pf = self.parser_of(f, env, gen)
            return pf.apply(b)
        pf = self.parser_of(f, env, gen)
        return pf.apply(b)

    def gen_subst(self, a, gen):
        if "/#" in a:
            nm = a.split("/#")[0]
            return gen.get(nm, a)
        return a

    def parser_of(self, e, env, gen):
        """parser-valued expression -> ParserFn"""
        e = strip_ref(e)
        k = e["k"]
        if k == "path":
            p = e.get("resolved") or e["path"]
            if p in NOM_PRIM:
                bits, en, mode = NOM_PRIM[p]
                return ParserFn(lambda b: b.u(bits, en, mode), p)
            if p.startswith("<u") and " as nom_derive::traits::Parse<" in p:
                ty = p[1:].split(" ")[0]
                meth = p.split("::")[-1]
                en = "le" if meth == "parse_le" else "be"
                if ty in WIDTH:
                    return ParserFn(lambda b: b.u(WIDTH[ty], en, "S"), p)
            if p == "nom::combinator::rest":
                return ParserFn(lambda b: b.whole(), p)
            is_local = e.get("resolved_local") if e.get("resolved") else e.get("local")
            if p in ("nom_derive::traits::Parse::parse_be", "nom_derive::traits::Parse::parse_le") and not is_local and e.get("args"):
                # the trait's default method of a hand-written impl: it calls Self::parse
                slf = e["args"][0].split("<")[0]
                for ff in self.facts.hir_fns():
                    if ff.get("impl_trait_path") == "nom_derive::traits::Parse" and ff.get("name") == "parse" and (ff.get("impl_self") or "").split("<")[0] == slf:
                        return ParserFn(lambda b, ff=ff: self.call_parser_fn(ff, [], None, None, b), ff["path"])
            if is_local and e.get("dk") in ("Fn", "AssocFn"):
                callee = self.facts.fn(p)
                if callee is None:
                    raise Opaque("no body for " + p)
                gargs = [self.gen_subst(a, gen) for a in e.get("args", [])]
                return ParserFn(lambda b: self.call_parser_fn(callee, gargs, None, None, b), p)
            if e.get("dk", "").startswith("Ctor"):
                raise Opaque("constructor used as parser")
            return ParserFn(lambda b: b.opaque("parser " + p), p)
        if k == "local":
            v = env.get(e["id"])
            if isinstance(v, Closure):
                return self.closure_parser(v)
            if isinstance(v, ParserFn):
                return v
            if isinstance(v, FnVal):
                return self.parser_of(v.hir, {}, gen)
            if isinstance(v, ParserChoice):
                return ParserFn(lambda b: self.apply_choice(v, b), "chosen parser")
            if isinstance(v, list) and v and v[0] == "p":
                return ParserFn(lambda b: b.param_parser(v[1]), "param " + v[1])
            raise Opaque("local used as parser: " + e["name"])
        if k == "closure":
            return self.closure_parser(Closure(e, env, gen))
        if k == "block":
            # `{ |i| ... }` produced by derive attributes
            if not e["stmts"] and e["expr"] is not None:
                return self.parser_of(e["expr"], env, gen)
            raise Opaque("block as parser")
        if k == "mcall" and (e.get("path") or "").startswith("nom::internal::Parser::"):
            # the method forms of nom's combinators: p.map(f), p.and_then(q), p.flat_map(f), p.and(q), p.or(q)
            meth = e["path"].split("::")[-1]
            as_fn = {"map": "nom::combinator::map", "and_then": "nom::combinator::map_parser", "flat_map": "nom::combinator::flat_map",
                     "and": "nom::sequence::pair"}
            if meth in as_fn and len(e["args"]) == 1:
                return self.parser_of({"k": "call", "f": {"k": "path", "path": as_fn[meth], "dk": "Fn"}, "args": [e["recv"], e["args"][0]], "ty": e.get("ty", "")}, env, gen)
            if meth == "or" and len(e["args"]) == 1:
                return self.parser_of({"k": "call", "f": {"k": "path", "path": "nom::branch::alt", "dk": "Fn"}, "args": [{"k": "tup", "xs": [e["recv"], e["args"][0]]}], "ty": e.get("ty", "")}, env, gen)
            raise Opaque("parser method " + meth)
        if k == "call":
            f = strip(e["f"])
            fp = path_of(f)
            a = e["args"]
            if fp is None:
                raise Opaque("call of non-path as parser constructor")
            if fp == "nom::combinator::value" and len(a) == 2:
                # value(v, p): p's result is dropped, v is produced
                v_ = self.sym(a[0], env, gen)
                p1 = self.parser_of(a[1], env, gen)
                def val_(b):
                    p1.apply(b)
                    return v_
                return ParserFn(val_, fp)
            if fp == "nom::combinator::success" and len(a) == 1:
                v_ = self.sym(a[0], env, gen)
                return ParserFn(lambda b: v_, fp)
            if fp in ("nom::bytes::streaming::take", "nom::bytes::complete::take"):
                n = self.sym(a[0], env, gen)
                mode = "S" if "streaming" in fp else "C"
                return ParserFn(lambda b: b.bytes(n, mode), fp)
            if fp in ("nom::bytes::streaming::tag", "nom::bytes::complete::tag"):
                t = self.sym(a[0], env, gen)
                mode = "S" if "streaming" in fp else "C"
                bs = t[1] if t[0] == "bytes_lit" else None
                if bs is None:
                    raise Opaque("tag with non-literal")
                return ParserFn(lambda b: b.tag(bs, mode), fp)
            if fp == "nom::combinator::flat_map":
                p1 = self.parser_of(a[0], env, gen)
                f2 = strip_ref(a[1])
                tgt2 = (f2.get("resolved") or f2.get("path") or "") if f2["k"] == "path" else ""
                if tgt2 in ("nom::bytes::streaming::take", "nom::bytes::complete::take"):
                    md = "S" if "streaming" in tgt2 else "C"
                    return ParserFn(lambda b: b.bytes(p1.apply(b), md), fp)
                if f2["k"] == "closure" and len(f2["params"]) == 1:
                    def fm(b):
                        v = p1.apply(b)
                        env2 = dict(env)
                        self.bind_pat(f2["params"][0], v, env2)
                        return self.parser_of(f2["body"], env2, gen).apply(b)
                    return ParserFn(fm, fp)
                raise Opaque("flat_map with a function the analysis cannot read")
            if fp == "nom::multi::length_data":
                lp = self.parser_of(a[0], env, gen)

                def ld(b):
                    n = lp.apply(b)
                    return b.bytes(n, "S")
                return ParserFn(ld, fp)
            if fp in ("nom::multi::fold_many0", "nom::multi::fold_many1") and len(a) == 3:
                # fold_many0(p, Vec::new, |mut acc, x| { acc.push(x); acc }) is many0(p)
                init = strip_ref(a[1])
                init_ok = (init["k"] == "path" and path_of(init) == "alloc::vec::Vec::<T>::new") or \
                    (init["k"] == "closure" and not init["params"] and strip(init["body"]).get("k") == "call" and path_of(strip(init["body"])["f"]) == "alloc::vec::Vec::<T>::new")
                fold = strip_ref(a[2])
                params = body = None
                if fold["k"] == "closure":
                    params, body = fold["params"], strip(fold["body"])
                elif fold["k"] == "path" and fold.get("dk") in ("Fn", "AssocFn") and (fold.get("resolved_local") if fold.get("resolved") else fold.get("local")):
                    callee = self.facts.fn(fold.get("resolved") or fold["path"])
                    if callee is not None:
                        params, body = callee["params"], strip(callee["hir"])
                push_ok = False
                if params is not None and len(params) == 2 and all(p_["k"] == "bind" for p_ in params) and body["k"] == "block" and len(body["stmts"]) == 1 and body["expr"] is not None:
                    st_ = body["stmts"][0]
                    pe = strip(st_["e"]) if st_["k"] in ("semi", "sexpr") else None
                    push_ok = pe is not None and pe["k"] == "mcall" and (pe.get("path") or "").endswith("Vec::<T, A>::push") and strip_ref(pe["recv"]).get("id") == params[0]["id"] \
                        and len(pe["args"]) == 1 and strip(pe["args"][0]).get("id") == params[1]["id"] and strip(body["expr"]).get("id") == params[0]["id"]
                if init_ok and push_ok:
                    ip = self.parser_of(a[0], env, gen)
                    meth = "many0" if fp.endswith("0") else "many1"
                    return ParserFn(lambda b: getattr(b, meth)(ip.apply), fp)
                raise Opaque("fold_many with an accumulator the analysis cannot read")
            if fp == "nom::multi::length_value":
                # length_value(f, g): f gives n, n bytes are taken (streaming), g runs on them with an Incomplete of g
                # turned into Error(Complete) - i.e. complete(g) inside the region - and what g leaves is dropped
                lp = self.parser_of(a[0], env, gen)
                gp = self.parser_of(a[1], env, gen)

                def lv(b):
                    n = lp.apply(b)
                    r = b.bytes(n, "S")
                    return b.sub(r, lambda nb: nb.complete(gp.apply))
                return ParserFn(lv, fp)
            if fp == "nom::multi::length_count":
                lp = self.parser_of(a[0], env, gen)
                ep = self.parser_of(a[1], env, gen)

                def lc(b):
                    n = lp.apply(b)
                    return b.count(n, ep.apply)
                return ParserFn(lc, fp)
            if fp == "nom::multi::count":
                ep = self.parser_of(a[0], env, gen)
                n = self.sym(a[1], env, gen)
                return ParserFn(lambda b: b.count(n, ep.apply), fp)
            simple = {"nom::multi::many0": "many0", "nom::multi::many1": "many1", "nom::combinator::opt": "opt", "nom::combinator::complete": "complete",
                      "nom::combinator::all_consuming": "all_consuming", "nom::combinator::cut": "cut"}
            if fp in simple:
                ip = self.parser_of(a[0], env, gen)
                meth = simple[fp]
                return ParserFn(lambda b: getattr(b, meth)(ip.apply), fp)
            if fp == "nom::combinator::peek":
                ip = self.parser_of(a[0], env, gen)
                return ParserFn(lambda b: b.peek(ip.apply), fp)
            if fp == "nom::combinator::cond":
                c = self.sym(a[0], env, gen)
                ip = self.parser_of(a[1], env, gen)
                return ParserFn(lambda b: b.cond(c, ip.apply), fp)
            if fp == "nom::combinator::map_parser":
                p1 = self.parser_of(a[0], env, gen)
                p2 = self.parser_of(a[1], env, gen)

                def mp(b):
                    r = p1.apply(b)
                    return b.sub(r, p2.apply)
                return ParserFn(mp, fp)
            if fp == "nom::combinator::map":
                p1 = self.parser_of(a[0], env, gen)
                fn = self.fn_value(a[1], env, gen)
                return ParserFn(lambda b: fn(p1.apply(b)), fp)
            if fp == "nom::combinator::map_res":
                p1 = self.parser_of(a[0], env, gen)
                f2 = strip_ref(a[1])
                tgt = (f2.get("resolved") or f2.get("path") or "") if f2["k"] == "path" else ""
                m_ = re.search(r"\[u8; (\d+)", tgt + " " + str(f2.get("args", "")) + " " + f2.get("ty", ""))
                if f2["k"] == "closure" and len(f2["params"]) == 1 and f2["params"][0]["k"] == "bind":
                    # |s: &[u8]| s.try_into()   /   |s| <&[u8; N]>::try_from(s)
                    cb = strip(f2["body"])
                    pid = f2["params"][0]["id"]
                    if cb["k"] == "mcall" and (cb.get("path") or "").endswith("TryInto::try_into") and strip_ref(cb["recv"]).get("id") == pid:
                        tgt = "TryInto::try_into"
                        m_ = re.search(r"\[u8; (\d+)", str(cb.get("gargs", "")) + " " + cb.get("ty", ""))
                    elif cb["k"] == "call" and "TryFrom" in (path_of(cb["f"]) or "") and (path_of(cb["f"]) or "").endswith("try_from") and len(cb["args"]) == 1 and strip_ref(cb["args"][0]).get("id") == pid:
                        tgt = "TryFrom::try_from"
                        m_ = re.search(r"\[u8; (\d+)", str(strip(cb["f"]).get("args", "")) + " " + cb.get("ty", ""))
                if (("TryFrom" in tgt and "try_from" in tgt) or ("TryInto" in tgt and "try_into" in tgt)) and m_:
                    n_ = int(m_.group(1))
                    txt_ = tgt + " " + json.dumps(f2)[:4000]
                    by_ref = re.search(r"&(?:'[\w{}]+ )?(?:mut )?\[u8; %d" % n_, txt_) is not None
                    def mr(b, n_=n_, by_ref=by_ref):
                        v = p1.apply(b)
                        last = b.steps[-1] if b.steps else None
                        if not (last is not None and last[0] == "bytes" and last[2] == ["n", n_] and v == V(last[1])):
                            raise Opaque("map_res with a conversion that can fail")
                        if not by_ref and n_ in (2, 4, 8):
                            # N bytes taken and owned as [u8; N] to be reassembled: the same N bytes as a big-endian
                            # integer read (same Needed when short); the array is that integer's bytes
                            b.steps[-1] = ["u", last[1], 8 * n_, "be", last[3]]
                            return ["array", [canon(["cast", "u8", op(">>", v, N(8 * (n_ - 1 - i_)))]) if i_ < n_ - 1 else canon(["cast", "u8", v]) for i_ in range(n_)]]
                        return ["array", n_, v]   # slice of exactly N bytes -> &[u8; N] cannot fail
                    return ParserFn(mr, fp)
                raise Opaque("map_res with a function the analysis cannot read")
            if fp == "nom::combinator::verify":
                p1 = self.parser_of(a[0], env, gen)
                fn = self.fn_value(a[1], env, gen)

                def vf(b):
                    v = p1.apply(b)
                    b.guard(canon(["not", fn(v)]), "Verify")
                    return v
                return ParserFn(vf, fp)
            if fp == "nom::branch::alt":
                t = strip(a[0])
                if t["k"] != "tup":
                    raise Opaque("alt of non-tuple")
                ps = [self.parser_of(x, env, gen) for x in t["xs"]]
                return ParserFn(lambda b: b.alt([p.apply for p in ps]), fp)
            if fp == "nom::sequence::pair":
                p1 = self.parser_of(a[0], env, gen)
                p2 = self.parser_of(a[1], env, gen)
                return ParserFn(lambda b: tup(p1.apply(b), p2.apply(b)), fp)
            if fp == "nom::sequence::tuple":
                t = strip(a[0])
                ps = [self.parser_of(x, env, gen) for x in t["xs"]]
                return ParserFn(lambda b: tup(*[p.apply(b) for p in ps]), fp)
            if fp == "nom::sequence::preceded":
                p1 = self.parser_of(a[0], env, gen)
                p2 = self.parser_of(a[1], env, gen)

                def pre(b):
                    p1.apply(b)
                    return p2.apply(b)
                return ParserFn(pre, fp)
            if fp == "nom::sequence::terminated":
                p1 = self.parser_of(a[0], env, gen)
                p2 = self.parser_of(a[1], env, gen)

                def term(b):
                    v = p1.apply(b)
                    p2.apply(b)
                    return v
                return ParserFn(term, fp)
            # local function returning a parser (impl FnMut)
            if f["k"] == "path" and f.get("local") and f.get("dk") in ("Fn", "AssocFn"):
                callee = self.facts.fn(f.get("resolved") or f["path"])
                if callee is not None:
                    env2 = {}
                    for p, x in zip(callee["params"], a):
                        self.bind_pat(p, self.sym_or_closure(x, env, gen), env2)
                    body = strip(callee["hir"])
                    return self.parser_of(body, env2, {})
            return ParserFn(lambda b: b.opaque("parser constructor " + fp), fp)
        raise Opaque("parser expression kind " + k)

    def closure_parser(self, clo):
        h = clo.hir
        if len(h["params"]) != 1:
            raise Opaque("parser closure arity")

        def ap(b):
            env2 = dict(clo.env)
            self.bind_pat(h["params"][0], b.tok(), env2)
            return self.eval_result_block(h["body"], env2, clo.gen, b)
        return ParserFn(ap, "closure")

    def fn_value(self, e, env, gen):
        """function-valued expression used by map/verify -> python callable on syms"""
        e = strip_ref(e)
        if e["k"] == "path" and e.get("dk", "").startswith("Ctor"):
            p = e["path"]
            return lambda v: ctor(p, v)
        if e["k"] == "closure":
            def call(v):
                env2 = dict(env)
                if len(e["params"]) != 1:
                    raise Opaque("closure arity")
                self.bind_pat(e["params"][0], v, env2)
                return self.sym(e["body"], env2, gen)
            return call
        if e["k"] == "path" and e.get("dk") in ("Fn", "AssocFn"):
            p = e.get("resolved") or e["path"]
            return lambda v: self.pure_call(p, [v], e)
        if e["k"] == "local":
            fv = env.get(e["id"])
            if isinstance(fv, FnVal):
                return self.fn_value(fv.hir, {}, gen)
            if isinstance(fv, Closure):
                return self.fn_value(fv.hir, fv.env, fv.gen)
        raise Opaque("function value " + e["k"])

    # ---------------------------------------------------------------- pure expressions
    def sym_or_closure(self, e, env, gen):
        e2 = strip_ref(e)
        if e2["k"] == "closure":
            return Closure(e2, env, gen)
        if e2["k"] == "path" and (e2.get("dk") in ("Fn", "AssocFn") or (e2.get("dk", "").startswith("Ctor") and "Fn" in e2.get("dk", ""))):
            return FnVal(e2)
        if e2["k"] == "local" and isinstance(env.get(e2["id"]), (Closure, FnVal, ParserFn, ParserChoice)):
            return env[e2["id"]]
        return self.sym(e, env, gen)

    def local_conversion(self, from_ty, to_ty, meth):
        """the hand-written `impl TryFrom<from_ty> for U` / `impl From<from_ty> for U` whose result type is to_ty"""
        trait = "core::convert::TryFrom" if meth == "try_from" else "core::convert::From"
        found = []
        nolt = lambda t: re.sub(r"'[\w{}]+ ", "", t or "")
        from_ty, to_ty = nolt(from_ty), nolt(to_ty)
        for ff in self.facts.hir_fns():
            if ff.get("impl_trait_path") == trait and ff.get("name") == meth and len(ff.get("inputs", [])) == 1 and nolt(ff["inputs"][0]) == from_ty:
                slf = nolt(ff.get("impl_self"))
                want = ("core::result::Result<%s, " % slf) if meth == "try_from" else slf
                if (meth == "try_from" and to_ty.startswith(want)) or (meth == "from" and to_ty == want):
                    found.append(ff)
        return found[0] if len(found) == 1 else None

    def pure_call(self, path, args, e=None):
        f = self.facts.fn(path)
        if f is not None and "hir" in f and len(f["params"]) == len(args):
            body = strip(f["hir"])
            env2 = {}
            try:
                for p, a in zip(f["params"], args):
                    self.bind_pat(p, a, env2)
                v = self.sym(body, env2, {})
                if not find_opaque(v):
                    return v
            except Opaque:
                pass
        return ["call", path, args]

    def sym(self, e, env, gen):
        e = strip(e)
        k = e["k"]
        if k == "local":
            if e["id"] in env:
                v = env[e["id"]]
                if isinstance(v, FnVal):
                    return self.sym(v.hir, {}, gen)
                if isinstance(v, (Closure, ParserFn, ParserChoice)):
                    raise Opaque("closure used as value")
                return v
            return ["opaque", "unbound " + e["name"]]
        if k == "lit":
            if "v" in e:
                return N(e["v"])
            if "b" in e:
                return ["bool", e["b"]]
            if "bytes" in e:
                return ["bytes_lit", e["bytes"]]
            if "s" in e:
                return ["str", e["s"]]
            return ["opaque", "literal"]
        if k == "path":
            dk = e.get("dk", "")
            if dk == "ConstParam":
                nm = e["path"].split("::")[-1]
                v = gen.get(nm)
                if v == "true":
                    return ["bool", True]
                if v == "false":
                    return ["bool", False]
                return ["cparam", nm]
            if "val" in e:
                ty = e.get("ty", "")
                if ty in WIDTH or ty == "bool":
                    return N(e["val"])
                return ctor(ty, N(e["val"]))
            if dk.startswith("Ctor"):
                return unit(e["path"])
            return ["unit", e.get("resolved") or e["path"]]
        if k == "addrof":
            return self.sym(e["x"], env, gen)
        if k == "un":
            a = self.sym(e["a"], env, gen)
            if e["op"] == "*":
                return a
            if e["op"] == "!":
                return canon(["not", a])
            return ["un", e["op"], a]
        if k == "bin":
            a = self.sym(e["a"], env, gen)
            b_ = self.sym(e["b"], env, gen)
            if e.get("overload") and e["op"] in ("==", "!="):
                # derived PartialEq on newtypes: compare the wrapped values
                if a[0] == "ctor" and b_[0] == "ctor" and a[1] == b_[1] and len(a[2]) == 1:
                    a, b_ = a[2][0], b_[2][0]
            return op(e["op"], a, b_)
        if k == "cast":
            x = self.sym(e["x"], env, gen)
            fr, to = e.get("from", ""), e.get("ty", "")
            if fr in WIDTH and to in WIDTH and WIDTH[to] >= WIDTH[fr] and not fr.startswith("i"):
                return x  # zero-extension is the identity on the value
            return canon(["cast", to, x])
        if k == "field":
            return fld(self.sym(e["x"], env, gen), e["name"])
        if k == "tup":
            return tup(*[self.sym(x, env, gen) for x in e["xs"]])
        if k == "array":
            xs = [self.sym(x, env, gen) for x in e["xs"]]
            if all(x[0] == "n" for x in xs):
                return ["bytes_lit", [x[1] for x in xs]]
            return ["array", xs]
        if k == "struct":
            res = e["res"]
            fields = sorted([f["name"], self.sym(f["e"], env, gen)] for f in e["fields"])
            if e.get("base") is not None:
                base_ = self.sym(e["base"], env, gen)
                if base_[0] == "struct" and base_[1] == res["path"]:
                    given = set(k_ for k_, _ in fields)
                    return ["struct", res["path"], sorted(fields + [[k_, v_] for k_, v_ in base_[2] if k_ not in given])]
                return ["struct_upd", res["path"], fields, base_]
            return ["struct", res["path"], fields]
        if k == "index":
            x = self.sym(e["x"], env, gen)
            if x[0] == "tok":
                x = ["tokbytes"] + x[1:]
            i = strip(e["i"])
            if i["k"] == "struct" and i["res"]["path"].startswith("core::ops::range::Range"):
                rp = i["res"]["path"]
                fs = {f["name"]: self.sym(f["e"], env, gen) for f in i["fields"]}
                if rp.endswith("RangeTo"):
                    return ["slice_to", x, fs["end"]]
                if rp.endswith("RangeFrom"):
                    return ["slice_from", x, fs["start"]]
                if rp.endswith("Range"):
                    return ["slice", x, fs["start"], fs["end"]]
                return ["opaque", "range index"]
            return ["idx", x, self.sym(i, env, gen)]
        if k == "call":
            f = strip(e["f"])
            fp = path_of(f)
            args = e["args"]
            if fp == "alloc::boxed::box_assume_init_into_vec_unsafe" and args:
                inner = strip(args[0])
                if inner["k"] == "call" and path_of(inner["f"]) == "alloc::intrinsics::write_box_via_move" and len(inner["args"]) == 2:
                    arr = strip(inner["args"][1])
                    if arr["k"] == "array":
                        return ["vec", [self.sym(x, env, gen) for x in arr["xs"]]]
            if fp == "alloc::vec::Vec::<T>::new":
                return ["vec", []]
            if f["k"] == "path" and f.get("dk", "").startswith("Ctor"):
                cv = ctor(f["path"], *[self.sym(a, env, gen) for a in args])
                if f["path"] == "core::option::Option::Some" and len(cv[2]) == 1:
                    # Some(g(o?)) in a function returning Option is o.map(|x| g(x))
                    holes = []
                    def find_try(s_):
                        if isinstance(s_, list):
                            if len(s_) == 2 and s_[0] == "try_opt":
                                holes.append(s_)
                                return
                            for y_ in s_:
                                find_try(y_)
                    find_try(cv[2][0])
                    if len(holes) == 1:
                        return canon_mcall("core::option::Option::<T>::map", [holes[0][1], ["lam", 1, subst(cv[2][0], holes[0], ["lp", 0])]])
                return cv
            if f["k"] == "path" and f.get("dk") in ("Fn", "AssocFn"):
                target = f.get("resolved") or f["path"]
                vals = [self.sym(a, env, gen) for a in args]
                is_local = f.get("resolved_local") if f.get("resolved") else f.get("local")
                if is_local:
                    return self.pure_call(target, vals, e)
                # lossless integer widening (u16 -> usize etc.) is the identity on the value
                if len(vals) == 1 and re.fullmatch(r"core::convert::num::<impl core::convert::From<u(8|16|32)> for (u16|u32|u64|u128|usize)>::from", target):
                    return vals[0]
                if len(vals) == 1 and target == "<T as core::convert::Into<U>>::into" and e.get("ty") in WIDTH and strip(args[0]).get("ty") in WIDTH \
                        and WIDTH[e["ty"]] >= WIDTH[strip(args[0])["ty"]] and not strip(args[0])["ty"].startswith("i"):
                    return vals[0]
                if target == "core::num::<impl u16>::from_be_bytes" and len(vals) == 1 and vals[0][0] == "array" and isinstance(vals[0][1], list) and len(vals[0][1]) == 2:
                    hi, lo_ = vals[0][1]
                    if hi[0] == "idx" and lo_[0] == "idx" and hi[1] == lo_[1] and hi[2] == ["n", 0] and lo_[2] == ["n", 1]:
                        return ["be16", hi[1]]
                mfb = re.fullmatch(r"core::num::<impl u(16|32|64)>::from_be_bytes", target)
                if mfb and len(vals) == 1 and vals[0][0] == "array" and isinstance(vals[0][1], list) and len(vals[0][1]) == int(mfb.group(1)) // 8:
                    # consecutive bytes of one integer B put together again (leading zero bytes allowed):
                    # (B >> s) truncated to as many bytes as were used
                    xs = list(vals[0][1])
                    while xs and xs[0] == ["n", 0]:
                        xs.pop(0)
                    def byte_of(x):
                        if x[0] == "cast" and x[1] == "u8":
                            y = x[2]
                            if y[0] == "op" and y[1] == ">>" and y[3][0] == "n":
                                return y[2], y[3][1]
                            return y, 0
                        return None
                    parts = [byte_of(x) for x in xs]
                    if xs and all(q is not None for q in parts) and all(q[0] == parts[0][0] for q in parts) \
                            and all(parts[j][1] == parts[-1][1] + 8 * (len(parts) - 1 - j) for j in range(len(parts))) and parts[0][0][0] == "v":
                        B_, s_ = parts[0][0], parts[-1][1]
                        sh_ = op(">>", B_, N(s_)) if s_ else B_
                        if len(xs) == len(vals[0][1]):
                            return canon(["cast", "u" + mfb.group(1), sh_])
                        return op("&", sh_, N((1 << (8 * len(xs))) - 1))
                return ["call", target, vals]
            if f["k"] == "local" and isinstance(env.get(f["id"]), Closure):
                clo = env[f["id"]]
                env2 = dict(clo.env)
                for p, a in zip(clo.hir["params"], args):
                    self.bind_pat(p, self.sym(a, env, gen), env2)
                return self.sym(clo.hir["body"], env2, clo.gen)
            if f["k"] == "local" and isinstance(env.get(f["id"]), list) and env[f["id"]] and env[f["id"]][0] == "lam" and env[f["id"]][1] == len(args):
                # a closure handed to a helper (as a symbolic lambda) applied to its arguments
                body_ = env[f["id"]][2]
                for i_, a_ in enumerate(args):
                    body_ = subst(body_, ["lp", i_], self.sym(a_, env, gen))
                return recanon(body_)
            if f["k"] == "local" and isinstance(env.get(f["id"]), FnVal):
                fh = env[f["id"]].hir
                vals = [self.sym(a, env, gen) for a in args]
                if fh.get("dk", "").startswith("Ctor"):
                    return ctor(fh["path"], *vals)
                tgt = fh.get("resolved") or fh["path"]
                return self.pure_call(tgt, vals, e) if (fh.get("resolved_local") if fh.get("resolved") else fh.get("local")) else ["call", tgt, vals]
            return ["opaque", "call"]
        if k == "mcall":
            p = e.get("resolved") or e.get("path") or e["name"]
            recv = self.sym(e["recv"], env, gen)
            if recv[0] == "tok":
                recv = ["tokbytes"] + recv[1:]
            if not e["args"] and (p.endswith("TryInto<U>>::try_into") or p.endswith("Into<U>>::into") or p in ("core::convert::TryInto::try_into", "core::convert::Into::into")):
                # the blanket impls: x.try_into() is U::try_from(x), x.into() is U::from(x); a local impl is inlined
                conv = self.local_conversion(strip(e["recv"]).get("ty", ""), e.get("ty", ""), "try_from" if "try_into" in p else "from")
                if conv is not None:
                    return self.pure_call(conv["path"], [recv], e)
            args = []
            for a in e["args"]:
                a2 = strip_ref(a)
                if a2["k"] == "closure":
                    args.append(self.lam(a2, env, gen))
                elif a2["k"] == "path" and a2.get("dk") in ("Fn", "AssocFn") and p in (ITER + "map", "core::option::Option::<T>::map") and (a2.get("resolved_local") if a2.get("resolved") else a2.get("local")):
                    # a local function used as the mapping function: |x| f(x), inlined
                    args.append(["lam", 1, self.pure_call(a2.get("resolved") or a2["path"], [["lp", 0]])])
                else:
                    args.append(self.sym(a, env, gen))
            if not args and (p == "core::clone::Clone::clone" or p.endswith("as core::clone::Clone>::clone") or p.endswith("::clone") and "Clone" in p):
                return recv   # values are compared, not their storage
            if p == "core::slice::<impl [T]>::len" or p.endswith("::len") and not args:
                if recv[0] == "tokbytes":
                    return ["remaining_at", recv[1]]   # what remains at that position of the input (see Builder.norm)
                return ["len", recv]
            if p == "core::slice::<impl [T]>::is_empty" or (p.endswith("::is_empty") and not args):
                if recv[0] == "tokbytes":
                    return eq(["remaining_at", recv[1]], N(0))
                return eq(["len", recv], N(0))
            m_ = re.fullmatch(r"core::num::<impl u(16|32|64)>::to_(be|le)_bytes", p)
            if m_ and not args:
                nb_ = int(m_.group(1)) // 8
                bs = [canon(["cast", "u8", op(">>", recv, N(8 * (nb_ - 1 - i)))]) if i < nb_ - 1 else canon(["cast", "u8", recv]) for i in range(nb_)]
                bs = bs if m_.group(2) == "be" else bs[::-1]
                if all(x[0] == "n" for x in bs):
                    return ["bytes_lit", [x[1] for x in bs]]
                return ["array", bs]
            if re.fullmatch(r"core::ops::range::Range\w*::<Idx>::contains", p) and len(args) == 1:
                x_ = args[0]
                lo_ = hi_ = None
                incl_ = False
                if recv[0] == "struct" and recv[1].startswith("core::ops::range::Range"):
                    fs_ = dict((k_, v_) for k_, v_ in recv[2])
                    lo_, hi_, incl_ = fs_.get("start"), fs_.get("end"), "Inclusive" in recv[1]
                elif recv[0] == "call" and recv[1] == "core::ops::range::RangeInclusive::<Idx>::new" and len(recv[2]) == 2:
                    lo_, hi_, incl_ = recv[2][0], recv[2][1], True
                else:
                    return canon_mcall(p, [recv] + args)
                c_ = ["bool", True]
                if lo_ is not None:
                    c_ = le(lo_, x_)
                if hi_ is not None:
                    h_ = le(x_, hi_) if incl_ else lt(x_, hi_)
                    c_ = h_ if c_ == ["bool", True] else land(c_, h_)
                return c_
            if p == "core::slice::<impl [T]>::split_at" and len(args) == 1:
                # (x[..n], x[n..]); the out-of-range panic is C01's business (PANIC-SITE split_at rule)
                return tup(["slice_to", recv, args[0]], ["slice_from", recv, args[0]])
            if e.get("resolved_local") or (e.get("local") and not e.get("resolved")):
                r = self.pure_call(p, [recv] + args, e)
                if r[0] != "call":
                    return r
            if p in ("core::result::Result::<T, E>::expect", "core::result::Result::<T, E>::unwrap") and recv[0] == "mcall" and recv[1].endswith("TryInto::try_into") or \
                    (p in ("core::result::Result::<T, E>::expect", "core::result::Result::<T, E>::unwrap") and recv[0] == "mcall" and "try_into" in recv[1]):
                m = re.match(r"&\[u8; (\d+)(?:_usize)?\]", e.get("ty", ""))
                if m:
                    return ["array", int(m.group(1)), recv[2][0]]
            return canon_mcall(p, [recv] + args)
        if k == "closure":
            return self.lam(e, env, gen)
        if k == "if" and strip(e["c"])["k"] == "letexpr" and e.get("f") is not None:
            # if let PAT = X { A } else { B }   is   match X { PAT => A, _ => B }
            le_ = strip(e["c"])
            return self.sym({"k": "match", "scrut": le_["init"], "ty": e.get("ty", ""), "arms": [
                {"pat": le_["pat"], "guard": None, "body": e["t"]}, {"pat": {"k": "wild"}, "guard": None, "body": e["f"]}]}, env, gen)
        if k == "if":
            c = self.sym(e["c"], env, gen)
            t = self.sym(e["t"], env, gen)
            f_ = self.sym(e["f"], env, gen) if e.get("f") is not None else tup()
            if c == ["bool", True]:
                return t
            if c == ["bool", False]:
                return f_
            return ["ifv", c, t, f_]
        if k == "block":
            env2 = dict(env)
            for s in e["stmts"]:
                if s["k"] == "let" and s.get("init") is not None and s.get("els") is None:
                    self.bind_pat(s["pat"], self.sym_or_closure(s["init"], env2, gen), env2)
                elif s["k"] == "item":
                    continue
                else:
                    return ["opaque", "block with statements"]
            if e["expr"] is None:
                return tup()
            return self.sym(e["expr"], env2, gen)
        if k == "match":
            if is_try(e) is not None:
                inner_ = strip(is_try(e))
                if (inner_.get("ty") or "").startswith("core::option::Option<"):
                    return ["try_opt", self.sym(inner_, env, gen)]
                return ["opaque", "? in value position"]
            sc = self.sym(e["scrut"], env, gen)
            if len(e["arms"]) == 2:
                some_arm = none_arm = None
                for a in e["arms"]:
                    p = a["pat"]
                    if p["k"] == "ptuplestruct" and p["res"]["path"] == "core::option::Option::Some" and len(p["pats"]) == 1 and p["pats"][0]["k"] == "bind":
                        some_arm = a
                    elif (p["k"] == "pexpr" and p["e"].get("path") == "core::option::Option::None") or p["k"] == "wild":
                        none_arm = a
                if some_arm is not None and none_arm is not None and none_arm.get("guard") is None and some_arm.get("guard") is None:
                    body = strip(some_arm["body"])
                    if body.get("k") == "local" and body["id"] == some_arm["pat"]["pats"][0]["id"]:
                        return ["mcall", "core::option::Option::<T>::unwrap_or", [sc, self.sym(none_arm["body"], env, gen)]]
                    # Some(x) => f(x), None => d   ==   scrut.map(|x| f(x)).unwrap_or(d)
                    env2 = dict(env)
                    env2[some_arm["pat"]["pats"][0]["id"]] = ["lp", 0]
                    mapped = canon_mcall("core::option::Option::<T>::map", [sc, ["lam", 1, self.sym(some_arm["body"], env2, gen)]])
                    return canon_mcall("core::option::Option::<T>::unwrap_or", [mapped, self.sym(none_arm["body"], env, gen)])
            arms = []
            for a in e["arms"]:
                env2 = dict(env)
                try:
                    consts, binds = self.pat_consts(a["pat"])
                except Opaque:
                    return ["opaque", "match in value position"]
                for bid in binds:
                    env2[bid] = sc
                arms.append([consts, self.sym(a["body"], env2, gen)])
            return ["matchv", sc, arms]
        return ["opaque", "expr " + k]

    def lam(self, clo, env, gen):
        env2 = dict(env)
        for i, p in enumerate(clo["params"]):
            self.bind_pat(p, ["lp", i], env2)
        return ["lam", len(clo["params"]), self.sym(clo["body"], env2, gen)]


IRESULT_TY = re.compile(r"^(core::option::Option<)?core::result::Result<\(&")
PARSERISH_TY = re.compile(r"impl (for<[^>]*> ?)?Fn|\{closure")
FNPTR_TY = re.compile(r"^(for<[^>]*> ?)?(unsafe )?fn\(")
OPT_OR_FN_TY = re.compile(r"^(core::option::Option<|(for<[^>]*> ?)?fn\()")


def has_effects(e):
    """does the expression contain `return` or `?` outside closures?"""
    if isinstance(e, dict):
        k = e.get("k")
        if k == "closure":
            return False
        if k == "ret":
            return True
        if k == "match" and is_try(e) is not None:
            return True
        return any(has_effects(v) for v in e.values())
    if isinstance(e, list):
        return any(has_effects(v) for v in e)
    return False


ITER = "core::iter::traits::iterator::Iterator::"


def canon_mcall(p, args):
    """semantic forms of the hand-written list decoders"""
    if p == "core::option::Option::<core::option::Option<T>>::flatten" or p.endswith("Option<T>>::flatten"):
        if args[0][0] == "ctor" and args[0][1] == "core::option::Option::Some":
            return args[0][2][0]
        if args[0] == NONE:
            return NONE
    if p == "core::option::Option::<T>::filter" and len(args) == 2 and args[0][0] == "ctor" and args[0][1] == "core::option::Option::Some":
        f_ = args[1]
        if f_[0] == "lam" and f_[1] == 1 and f_[2] == ["op", "<", ["n", 0], ["len", ["lp", 0]]]:
            return ["nonempty", args[0][2][0]]   # Some(x) if x is not empty, else None
    PHF = "phf::map::Map::<K, V>::"
    if p == "core::option::Option::<T>::map" and len(args) == 2 and args[0][0] == "mcall" and args[0][1] == PHF + "get_entry" and args[1] == ["lam", 1, ["fld", ["lp", 0], "1"]]:
        return ["mcall", PHF + "get", args[0][2]]   # phf: get(k) is get_entry(k).map(|e| e.1)
    if p == ITER + "find_map" and len(args) == 2 and args[0][0] == "mcall" and args[0][1] == PHF + "entries" and args[1][0] == "lam" and args[1][1] == 1:
        body = args[1][2]
        val = ["fld", ["lp", 0], "1"]
        if body[0] == "ifv" and body[3] == NONE and body[2] == ["ctor", "core::option::Option::Some", [val]]:
            body = ["mcall", "core::bool::<impl bool>::then_some", [body[1], val]]   # if pred { Some(v) } else { None }
        if body[0] == "mcall" and body[1] == "core::bool::<impl bool>::then" and len(body[2]) == 2 and body[2][1] == ["lam", 0, val]:
            body = ["mcall", "core::bool::<impl bool>::then_some", [body[2][0], val]]
        if body[0] == "mcall" and body[1] == "core::bool::<impl bool>::then_some" and body[2][1] == val and not occurs(subst(body[2][0], val, ["x"]), ["lp", 0]):
            # entries().find_map(|(_, v)| pred(v).then_some(v)) is values().find(pred)
            return ["mcall", ITER + "find", [["mcall", PHF + "values", args[0][2]], ["lam", 1, subst(body[2][0], val, ["lp", 0])]]]
    if p == "core::option::Option::<T>::unwrap_or" and len(args) == 2 and args[0][0] == "mcall" and args[0][1] == "core::option::Option::<T>::map" and len(args[0][2]) == 2 \
            and args[0][2][1] == ["lam", 1, ["ctor", "core::result::Result::Ok", [["lp", 0]]]] and args[1][0] == "ctor" and args[1][1] == "core::result::Result::Err" and len(args[1][2]) == 1:
        return ["mcall", "core::option::Option::<T>::ok_or", [args[0][2][0], args[1][2][0]]]   # match o { Some(x) => Ok(x), None => Err(e) }
    if p == "core::result::Result::<T, E>::ok" and len(args) == 1 and args[0][0] == "mcall" and args[0][1] in ("core::option::Option::<T>::ok_or", "core::option::Option::<T>::ok_or_else") \
            and len(args[0][2]) == 2:
        return args[0][2][0]   # o.ok_or(e).ok() is o
    if p in (ITER + "copied", ITER + "cloned") and len(args) == 1:
        return args[0]  # element values are compared, not their addresses
    if p == ITER + "map" and len(args) == 2:
        src, f = args
        if f[0] == "unit":
            # a constructor or function used as the mapping function
            f = ["lam", 1, ["ctor", f[1], [["lp", 0]]]]
        if src[0] == "mcall" and src[1] == ITER + "map" and len(src[2]) == 2 and f[0] == "lam" and f[1] == 1 and src[2][1][0] == "lam" and src[2][1][1] == 1:
            # map(g) after map(f) is map(g . f)
            inner = src[2][1]
            return ["mcall", p, [src[2][0], ["lam", 1, subst(f[2], ["lp", 0], inner[2])]]]
        return ["mcall", p, [src, f]]
    if p == ITER + "collect" and len(args) == 1:
        m = args[0]
        if m[0] == "mcall" and m[1] == ITER + "map" and len(m[2]) == 2:
            src, lam = m[2]
            if src[0] == "mcall" and src[1] in ("core::slice::<impl [T]>::chunks", "core::slice::<impl [T]>::chunks_exact") and src[2][1] == ["n", 2]:
                return ["map_chunks2", src[2][0], lam]
            if src[0] == "mcall" and src[1] == "core::slice::<impl [T]>::iter":
                return ["map_each", src[2][0], lam]
    return ["mcall", p, args]


def subst(s, old, new):
    if s == old:
        return new
    if isinstance(s, list):
        return [subst(x, old, new) for x in s]
    return s
