"""Run the tlsfacts driver over a source tree and load the fact file.

Every call uses a fresh CARGO_TARGET_DIR under a scratch directory outside /repo and
/verif and removes it afterwards (a warm directory makes cargo skip the wrapper).
"""
import json, os, shutil, subprocess, sys, tempfile, time, secrets

VERIF = os.path.dirname(os.path.dirname(os.path.abspath(__file__)))
DRIVER = os.path.join(VERIF, "driver", "target", "release", "tlsfacts")
CONFIGS = {
    "default": [],
    "serialize": ["--features", "serialize"],
    "nostd": ["--no-default-features"],
    "serialize_nostd": ["--no-default-features", "--features", "serialize"],
}
RUSTFLAGS = "-Zmir-opt-level=0 -Awarnings -Coverflow-checks=on -Cdebug-assertions=on"


class ExtractError(Exception):
    pass


_sysroot = None


def sysroot():
    global _sysroot
    if _sysroot is None:
        _sysroot = subprocess.check_output(["rustc", "+nightly", "--print", "sysroot"], text=True).strip()
    return _sysroot


def scratch_root():
    base = os.environ.get("TLSVERIF_SCRATCH") or os.path.join(tempfile.gettempdir(), "tlsverif-scratch")
    os.makedirs(base, exist_ok=True)
    return base


def extract(repo="/repo", config="default", crate="tls_parser", want_mir=True, keep=False, expect_fail=False):
    """Returns (facts dict, info dict). Raises ExtractError if the crate does not compile
    (unless expect_fail, in which case returns (None, info) with info['stderr'])."""
    if config == "default" and os.environ.get("TLSVERIF_CONFIG"):
        config = os.environ["TLSVERIF_CONFIG"]  # thorough tier: re-run a property's rules under another buildable configuration
    if not os.path.exists(DRIVER):
        raise ExtractError("driver not built: run MANIFEST.setup_cmd (cargo +nightly build --release in /verif/driver)")
    work = tempfile.mkdtemp(prefix="x-", dir=scratch_root())
    out = os.path.join(work, "out")
    os.makedirs(out)
    nonce = secrets.token_hex(8)
    env = dict(os.environ)
    env.update(
        LD_LIBRARY_PATH=os.path.join(sysroot(), "lib") + ":" + env.get("LD_LIBRARY_PATH", ""),
        RUSTFLAGS=RUSTFLAGS,
        RUSTC_WORKSPACE_WRAPPER=DRIVER,
        TLSFACTS_OUT=out,
        TLSFACTS_NONCE=nonce,
        TLSFACTS_CRATE=crate,
        TLSFACTS_MIR="1" if want_mir else "0",
        CARGO_TARGET_DIR=os.path.join(work, "target"),
        CARGO_NET_OFFLINE="true",
        CARGO_TERM_COLOR="never",
    )
    env.pop("RUSTC_WRAPPER", None)
    cmd = ["cargo", "+nightly", "check", "--offline", "--lib", "-q"] + CONFIGS[config]
    t0 = time.time()
    try:
        p = subprocess.run(cmd, cwd=repo, env=env, capture_output=True, text=True)
        info = {"config": config, "cmd": " ".join(cmd), "rc": p.returncode, "wall_s": round(time.time() - t0, 2),
                "stderr": p.stderr[-6000:]}
        if expect_fail:
            return None, info
        if p.returncode != 0:
            raise ExtractError("crate does not compile in config %s:\n%s" % (config, p.stderr[-3000:]))
        f = os.path.join(out, crate + ".json")
        if not os.path.exists(f):
            raise ExtractError("fact file missing for config %s (driver skipped?)" % config)
        with open(f) as fh:
            facts = json.load(fh)
        if facts["meta"]["nonce"] != nonce:
            raise ExtractError("stale fact file (nonce mismatch)")
        info["bytes"] = os.path.getsize(f)
        if keep:
            dst = os.path.join(scratch_root(), "facts-%s.json" % config)
            shutil.copy(f, dst)
            info["kept"] = dst
        return facts, info
    finally:
        shutil.rmtree(work, ignore_errors=True)


if __name__ == "__main__":
    cfg = sys.argv[1] if len(sys.argv) > 1 else "default"
    repo = sys.argv[2] if len(sys.argv) > 2 else "/repo"
    facts, info = extract(repo, cfg, keep=True)
    print(json.dumps({k: v for k, v in info.items() if k != "stderr"}))
    print(json.dumps(facts["meta"])[:600])
