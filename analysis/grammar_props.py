"""Table: which parser function of the crate must implement which reference grammar, and for which properties."""
from .pir import P, N, ctor, struct, unit
from .grammar_check import load_spec

G = load_spec()
A1 = P("arg1")
MH = G.MH


def wrap(variant, g):
    return lambda b: ctor(MH + variant, g(b))


def ext_content(ty, L=None):
    return lambda b: G.EXT_CONTENT[ty][0](b, L)


# (function path, reference grammar, properties it serves)
TABLE = [
    # records
    ("tls_record::parse_tls_record_header", G.record_header, ["C02"]),
    ("tls_record::parse_tls_raw_record", G.raw_record, ["C02", "C06"]),
    ("tls_record::parse_tls_encrypted", G.encrypted_record, ["C02", "C06"]),
    ("tls_record::parse_tls_plaintext", G.plaintext_record, ["C02", "C03", "C06", "C09"]),
    ("tls_record::parse_tls_record_with_header", G.record_content_standalone, ["C03"]),
    ("tls_record::tls_parser", G.plaintext_record, ["C16"]),
    ("tls_record::tls_parser_many", G.plaintext_records, ["C16"]),
    ("tls_message::parse_tls_message_changecipherspec", G.ccs, ["C03"]),
    ("tls_message::parse_tls_message_alert", G.alert, ["C03"]),
    ("tls_message::parse_tls_message_applicationdata", G.appdata, ["C03"]),
    ("tls_message::parse_tls_message_heartbeat", lambda b: G.heartbeat(b, A1), ["C03"]),
    # handshake
    ("tls_handshake::parse_tls_message_handshake", G.handshake_message, ["C03", "C04", "C06", "C09"]),
    ("tls_handshake::parse_tls_handshake_msg_hello_request", lambda b: unit(MH + "HelloRequest"), ["C04"]),
    ("tls_handshake::parse_tls_handshake_client_hello", G.client_hello, ["C04"]),
    ("tls_handshake::parse_tls_handshake_msg_client_hello", wrap("ClientHello", G.client_hello), ["C04"]),
    ("tls_handshake::parse_tls_handshake_server_hello", G.server_hello_contents, ["C04"]),
    ("tls_handshake::parse_tls_handshake_msg_server_hello", G.server_hello_msg, ["C04"]),
    ("tls_handshake::parse_tls_handshake_msg_newsessionticket", lambda b: G.new_session_ticket(b, A1), ["C04"]),
    ("tls_handshake::parse_tls_handshake_msg_hello_retry_request", G.hello_retry_request, ["C04"]),
    ("tls_handshake::parse_tls_handshake_msg_certificate", wrap("Certificate", G.certificate), ["C04"]),
    ("tls_handshake::parse_tls_handshake_msg_serverkeyexchange", lambda b: ctor(MH + "ServerKeyExchange", struct(G.TH + "TlsServerKeyExchangeContents", parameters=b.bytes(A1))), ["C04"]),
    ("tls_handshake::parse_tls_handshake_msg_serverdone", lambda b: ctor(MH + "ServerDone", b.bytes(A1)), ["C04"]),
    ("tls_handshake::parse_tls_handshake_msg_certificateverify", lambda b: ctor(MH + "CertificateVerify", b.bytes(A1)), ["C04"]),
    ("tls_handshake::parse_tls_handshake_msg_clientkeyexchange", lambda b: ctor(MH + "ClientKeyExchange", ctor(G.TH + "TlsClientKeyExchangeContents::Unknown", b.bytes(A1))), ["C04"]),
    ("tls_handshake::parse_tls_handshake_certificaterequest", G.cert_request, ["C04"]),
    ("tls_handshake::parse_tls_handshake_msg_certificaterequest", wrap("CertificateRequest", G.cert_request), ["C04"]),
    ("tls_handshake::parse_tls_handshake_msg_finished", lambda b: ctor(MH + "Finished", b.bytes(A1)), ["C04"]),
    ("tls_handshake::parse_tls_handshake_certificatestatus", G.cert_status, ["C04"]),
    ("tls_handshake::parse_tls_handshake_msg_certificatestatus", wrap("CertificateStatus", G.cert_status), ["C04"]),
    ("tls_handshake::parse_tls_handshake_next_protocol", G.next_protocol, ["C04"]),
    ("tls_handshake::parse_tls_handshake_msg_next_protocol", wrap("NextProtocol", G.next_protocol), ["C04"]),
    ("tls_handshake::parse_tls_handshake_msg_key_update", lambda b: ctor(MH + "KeyUpdate", b.u(8)), ["C04"]),
    # extensions
    ("tls_extensions::parse_tls_extension", G.extension(G.GENERIC_TYPES), ["C05", "C06"]),
    ("tls_extensions::parse_tls_client_hello_extension", G.extension(G.CLIENT_TYPES), ["C05", "C06"]),
    ("tls_extensions::parse_tls_server_hello_extension", G.extension(G.SERVER_TYPES), ["C05", "C06"]),
    ("tls_extensions::parse_tls_extensions", G.extension_list(G.GENERIC_TYPES), ["C05"]),
    ("tls_extensions::parse_tls_client_hello_extensions", G.extension_list(G.CLIENT_TYPES), ["C05"]),
    ("tls_extensions::parse_tls_server_hello_extensions", G.extension_list(G.SERVER_TYPES), ["C05"]),
    ("tls_extensions::parse_tls_extension_unknown", G.ext_unknown, ["C05"]),
    ("tls_extensions::parse_tls_extension_sni_hostname", G.sni_hostname, ["C05"]),
    ("tls_extensions::parse_tls_extension_sni_content", ext_content(0), ["C05", "C09"]),
    ("tls_extensions::parse_tls_extension_max_fragment_length_content", ext_content(1), ["C05", "C09"]),
    ("tls_extensions::parse_tls_extension_elliptic_curves_content", ext_content(10), ["C05", "C09"]),
    ("tls_extensions::parse_tls_extension_ec_point_formats_content", ext_content(11), ["C05"]),
    ("tls_extensions::parse_tls_extension_signature_algorithms_content", ext_content(13), ["C05"]),
    ("tls_extensions::parse_tls_extension_heartbeat_content", ext_content(15), ["C05"]),
    ("tls_extensions::parse_tls_extension_alpn_content", ext_content(16), ["C05"]),
    ("tls_extensions::parse_tls_extension_signed_certificate_timestamp_content", ext_content(18), ["C05"]),
    ("tls_extensions::parse_tls_extension_psk_key_exchange_modes_content", ext_content(45), ["C05"]),
    ("tls_extensions::parse_tls_extension_renegotiation_info_content", ext_content(0xff01), ["C05"]),
    ("tls_extensions::parse_tls_extension_encrypted_server_name", ext_content(0xffce), ["C05"]),
    ("tls_ec::parse_named_groups", G.named_groups_whole, ["C05"]),
    # single-purpose (tag) parsers: name -> IANA type
    ("tls_extensions::parse_tls_extension_sni", G.tagged(0), ["C05", "C06"]),
    ("tls_extensions::parse_tls_extension_max_fragment_length", G.tagged(1), ["C05", "C06"]),
    ("tls_extensions::parse_tls_extension_status_request", G.tagged(5), ["C05", "C06"]),
    ("tls_extensions::parse_tls_extension_elliptic_curves", G.tagged(10), ["C05", "C06"]),
    ("tls_extensions::parse_tls_extension_ec_point_formats", G.tagged(11), ["C05", "C06"]),
    ("tls_extensions::parse_tls_extension_signature_algorithms", G.tagged(13), ["C05", "C06"]),
    ("tls_extensions::parse_tls_extension_heartbeat", G.tagged(15, 1), ["C05", "C06"]),
    ("tls_extensions::parse_tls_extension_encrypt_then_mac", G.tagged(22), ["C05", "C06"]),
    ("tls_extensions::parse_tls_extension_extended_master_secret", G.tagged(23), ["C05", "C06"]),
    ("tls_extensions::parse_tls_extension_session_ticket", G.tagged(35), ["C05", "C06"]),
    ("tls_extensions::parse_tls_extension_pre_shared_key", G.tagged(41), ["C05", "C06"]),
    ("tls_extensions::parse_tls_extension_early_data", G.tagged(42), ["C05", "C06"]),
    ("tls_extensions::parse_tls_extension_supported_versions", G.tagged(43), ["C05", "C06"]),
    ("tls_extensions::parse_tls_extension_cookie", G.tagged(44), ["C05", "C06"]),
    ("tls_extensions::parse_tls_extension_psk_key_exchange_modes", G.tagged(45), ["C05", "C06"]),
    ("tls_extensions::parse_tls_extension_key_share", G.tagged(51), ["C05", "C06"]),
    # DTLS
    ("dtls::parse_dtls_record_header", G.dtls_header, ["C10"]),
    ("dtls::parse_dtls_plaintext_record", G.dtls_record, ["C10", "C06"]),
    ("dtls::parse_dtls_plaintext_records", G.dtls_records, ["C10", "C16"]),
    ("dtls::parse_dtls_record_with_header", G.dtls_record_content_standalone, ["C10"]),
    ("dtls::parse_dtls_message_handshake", G.dtls_handshake_message, ["C10", "C06"]),
    ("dtls::parse_dtls_message_changecipherspec", G.dtls_ccs, ["C10"]),
    ("dtls::parse_dtls_message_alert", G.dtls_alert, ["C10"]),
    # key exchange / signatures
    ("tls_dh::parse_dh_params", G.dh_params, ["C13", "C06"]),
    ("tls_ec::parse_ec_parameters", G.ec_parameters, ["C13", "C06"]),
    ("tls_ec::parse_ecdh_params", G.ecdh_params, ["C13", "C06"]),
    ("tls_sign_hash::parse_digitally_signed", G.digitally_signed, ["C13", "C06"]),
    ("tls_sign_hash::parse_digitally_signed_old", G.digitally_signed_old, ["C13", "C06"]),
    ("tls_sign_hash::parse_content_and_signature", G.content_and_signature, ["C13"]),
    # certificate transparency
    ("certificate_transparency::parse_ct_signed_certificate_timestamp", G.sct, ["C14", "C06"]),
    ("certificate_transparency::parse_ct_signed_certificate_timestamp_list", G.sct_list, ["C14", "C06"]),
]


# what of a function's grammar a property is about (default: the whole grammar)
#   ("cut", d): grammar inside length-delimited regions nested deeper than d is replaced by a placeholder
#   ("skeleton",): consumption skeleton only (no guards, values, dispatch constants)
PROJECTION = {
    ("C02", "tls_record::parse_tls_plaintext"): ("cut", 0),          # framing only; the payload is C03's
    ("C03", "tls_record::parse_tls_plaintext"): ("cut", 1),          # messages framed; handshake bodies are C04's
    ("C03", "tls_record::parse_tls_record_with_header"): ("cut", 0),
    ("C03", "tls_handshake::parse_tls_message_handshake"): ("cut", 0),
    # C09: the reader only matters for what the serializer can emit: ChangeCipherSpec and Handshake records; HelloRequest,
    # ClientHello, ServerHello (all forms), ClientKeyExchange, Finished
    ("C09", "tls_record::parse_tls_plaintext"): ("arms", [{0x14, 0x16}, {0, 1, 2, 16, 20}, None]),
    ("C09", "tls_handshake::parse_tls_message_handshake"): ("arms", [{0, 1, 2, 16, 20}, None]),
}
for _p, _s, _props in TABLE:
    if "C06" in _props:
        PROJECTION[("C06", _p)] = ("skeleton", 0)   # what happens inside a length-delimited region cannot affect locality


def entries(prop):
    return [(p, s) for p, s, props in TABLE if prop in props]
