"""A small abstract evaluator over the extracted HIR, for pure table-like functions
(state machine, key_bits, mac_length, Display tables ...).

Abstract values:
  ("int", n)                      known integer
  ("intnot", frozenset)           integer known to be none of these
  ("bool", b)
  ("enum", variant_path, payload) payload: list of abstract values, or None = arbitrary payload
  ("rec", {field: val})           struct with some known fields (missing = arbitrary)
  ("newtype", path, val)          tuple struct with one field
  ("str", s)
  ("tuple", [vals])
  ("array", [vals])               array or slice of known length (elements abstract)
  ("sym", name)                   an opaque atom (e.g. the i-th byte of a symbolic input)
  ("be", [vals])                  big-endian combination of bytes that are not all known
  ("closure", hir, env) / ("fnref", path)   function values
  ("obj", {method: value})        a receiver whose (trait) methods return the given values
  ("any",)                        arbitrary / unknown
  ("ref", val) is not modelled: references are looked through.

evaluate() returns an abstract value or raises Unknown(reason) when the outcome would depend on
something the abstract input does not determine (this is how content-independence is decided).
"""
from .core import strip, is_try


class Unknown(Exception):
    pass


class Return(Exception):
    """`return x` met while evaluating a body (caught by call_fn)"""
    def __init__(self, value):
        self.value = value


ANY = ("any",)


def variant(path, payload=None):
    return ("enum", path, payload)


class AEval:
    def __init__(self, facts, max_depth=8):
        self.facts = facts
        self.max_depth = max_depth
        self.trace = []  # fields / constructs looked at

    # ---------------------------------------------------------------- patterns
    def pmatch(self, p, v, env):
        """returns True / False; raises Unknown if undetermined. Binds into env on success."""
        k = p["k"]
        if k == "wild":
            return True
        if k == "bind":
            if p.get("sub") is not None:
                if not self.pmatch(p["sub"], v, env):
                    return False
            env[p["id"]] = v
            return True
        if k in ("pref", "pderef"):
            return self.pmatch(p["pat"], v, env)
        if k == "ptuple":
            if v[0] == "any":
                vals = [ANY] * len(p["pats"])
            elif v[0] == "tuple":
                vals = v[1]
            else:
                raise Unknown("tuple pattern against %r" % (v,))
            if p.get("ddpos") is not None:
                raise Unknown("tuple pattern with ..")
            if len(vals) != len(p["pats"]):
                raise Unknown("tuple arity")
            # evaluate all components; False wins over Unknown only if determined before
            res = True
            pending = None
            for sp, sv in zip(p["pats"], vals):
                try:
                    if not self.pmatch(sp, sv, env):
                        return False
                except Unknown as u:
                    pending = u
            if pending:
                raise pending
            return res
        if k == "por":
            pending = None
            for sp in p["pats"]:
                try:
                    if self.pmatch(sp, v, env):
                        return True
                except Unknown as u:
                    pending = u
            if pending:
                raise pending
            return False
        if k == "pexpr":
            e = p["e"]
            if e["k"] == "lit":
                return self.eq(v, self.lit(e))
            if e["k"] == "path":
                dk = e.get("dk", "")
                if dk.startswith("Ctor"):
                    return self.match_variant(v, e["path"], [], None)
                if "val" in e:
                    return self.eq(v, ("int", e["val"]))
                raise Unknown("constant pattern without value: %s" % e["path"])
            raise Unknown("pattern expr " + e["k"])
        if k == "ptuplestruct":
            res = p["res"]
            return self.match_variant(v, res["path"], p["pats"], env, ddpos=p.get("ddpos"))
        if k == "pstruct":
            res = p["res"]
            if res.get("dk", "").startswith("Variant") or res.get("dk", "").startswith("Ctor"):
                ok = self.match_variant(v, res["path"], [], None)
                if not ok:
                    return False
                if p["fields"]:
                    raise Unknown("struct-variant field patterns")
                return True
            if v[0] in ("rec", "any"):
                for f in p["fields"]:
                    fv = v[1].get(f["name"], ANY) if v[0] == "rec" else ANY
                    self.trace.append(("field", f["name"]))
                    if not self.pmatch(f["pat"], fv, env):
                        return False
                return True
            raise Unknown("struct pattern against %r" % (v,))
        if k == "prange":
            lo = p["lo"]["v"] if p.get("lo") else None
            hi = p["hi"]["v"] if p.get("hi") else None
            if v[0] == "int":
                n = v[1]
                if lo is not None and n < lo:
                    return False
                if hi is not None:
                    if p["end"] == "Included" and n > hi:
                        return False
                    if p["end"] != "Included" and n >= hi:
                        return False
                return True
            raise Unknown("range pattern against %r" % (v,))
        if k == "pslice":
            if v[0] != "array":
                raise Unknown("slice pattern against %r" % (v[0],))
            before, after, mid = p.get("before") or [], p.get("after") or [], p.get("mid")
            xs = v[1]
            if len(xs) < len(before) + len(after) or (mid is None and len(xs) != len(before) + len(after)):
                return False
            for sp, sv in zip(before, xs):
                if not self.pmatch(sp, sv, env):
                    return False
            for sp, sv in zip(after, xs[len(xs) - len(after):]):
                if not self.pmatch(sp, sv, env):
                    return False
            if mid is not None:
                if not self.pmatch(mid, ("array", xs[len(before):len(xs) - len(after)]), env):
                    return False
            return True
        raise Unknown("pattern kind " + k)

    def match_variant(self, v, vpath, subpats, env, ddpos=None):
        if v[0] == "any":
            raise Unknown("variant test %s on arbitrary value" % vpath)
        if v[0] == "newtype":
            if v[1] != vpath:
                raise Unknown("newtype mismatch")
            if len(subpats) != 1:
                raise Unknown("newtype arity")
            return self.pmatch(subpats[0], v[2], env)
        if v[0] != "enum":
            raise Unknown("variant test %s on %r" % (vpath, v))
        if v[1] != vpath:
            return False
        if not subpats:
            return True
        payload = v[2]
        if payload is None:
            payload = [ANY] * len(subpats)
        if ddpos is not None:
            raise Unknown("variant pattern with ..")
        if len(payload) != len(subpats):
            raise Unknown("variant arity")
        for sp, sv in zip(subpats, payload):
            if not self.pmatch(sp, sv, env):
                return False
        return True

    def lit(self, e):
        if "v" in e:
            return ("int", e["v"])
        if "b" in e:
            return ("bool", e["b"])
        if "s" in e:
            return ("str", e["s"])
        raise Unknown("literal kind")

    def eq(self, a, b):
        if a[0] == "newtype":
            a = a[2]
        if b[0] == "newtype":
            b = b[2]
        if a[0] == "int" and b[0] == "int":
            return a[1] == b[1]
        if a[0] == "bool" and b[0] == "bool":
            return a[1] == b[1]
        if a[0] == "intnot" and b[0] == "int":
            if b[1] in a[1]:
                return False
            raise Unknown("== on partially known integer")
        if a[0] == "int" and b[0] == "intnot":
            return self.eq(b, a)
        if a[0] == "enum" and b[0] == "enum" and a[2] in (None, []) and b[2] in (None, []):
            if a[1] != b[1]:
                return False
            if a[2] == [] and b[2] == []:
                return True
        raise Unknown("== on %r, %r" % (a[0], b[0]))

    # ---------------------------------------------------------------- expressions
    def call_fn(self, path, args, depth=0):
        f = self.facts.fn(path)
        if f is None or "hir" not in f:
            raise Unknown("no body for " + path)
        if depth > self.max_depth:
            raise Unknown("call depth")
        env = {}
        if len(f["params"]) != len(args):
            raise Unknown("arity of " + path)
        for p, a in zip(f["params"], args):
            if not self.pmatch(p, a, env):
                raise Unknown("parameter pattern")
        try:
            return self.ev(f["hir"], env, depth)
        except Return as r:
            return r.value

    # ---------------------------------------------------------------- function values, Option/Result/slice built-ins
    def apply(self, fv, args, depth):
        if fv[0] == "closure":
            clo, cenv = fv[1], dict(fv[2])
            if len(clo["params"]) != len(args):
                raise Unknown("closure arity")
            for p, a in zip(clo["params"], args):
                if not self.pmatch(p, a, cenv):
                    raise Unknown("closure parameter pattern")
            try:
                return self.ev(clo["body"], cenv, depth + 1)
            except Return as r:
                return r.value
        if fv[0] == "ctorfn":
            return ("enum", fv[1], list(args))
        if fv[0] == "fnref":
            return self.call_path(fv[1], fv[2], args, depth)
        raise Unknown("call of a non-function value")

    def call_path(self, path, local, args, depth):
        m = path.split("::")[-1]
        import re as _re
        if _re.fullmatch(r"core::convert::num::<impl core::convert::From<u(8|16|32)> for (u16|u32|u64|u128|usize)>::from", path) and len(args) == 1:
            return args[0]   # lossless widening
        if path == "<T as core::convert::Into<U>>::into" and len(args) == 1 and args[0][0] in ("int", "sym", "be", "shl"):
            return args[0]
        if path.startswith("core::num::<impl u") and m in ("from_be_bytes", "from_le_bytes") and len(args) == 1 and args[0][0] == "array":
            xs = list(args[0][1])
            if m == "from_le_bytes":
                xs = xs[::-1]
            if all(x[0] == "int" for x in xs):
                n = 0
                for x in xs:
                    n = (n << 8) | (x[1] & 0xff)
                return ("int", n)
            return ("be", xs)
        if local:
            return self.call_fn(path, args, depth + 1)
        raise Unknown("call of " + path)

    SOME, NONE_, OK, ERR = "core::option::Option::Some", "core::option::Option::None", "core::result::Result::Ok", "core::result::Result::Err"

    def builtin_mcall(self, e, env, depth):
        """Option / Result / slice methods of core on abstract values; None if the method is not one of them"""
        p = e.get("path") or ""
        name = p.split("::")[-1]
        if p.startswith("core::option::Option::<T>::") or p.startswith("core::result::Result::<T, E>::"):
            is_opt = p.startswith("core::option")
            v = self.ev(e["recv"], env, depth)
            if v[0] != "enum":
                raise Unknown("%s on an arbitrary value" % name)
            good = v[1] in (self.SOME, self.OK)
            inner = v[2][0] if good and v[2] else None
            args = e["args"]
            if name in ("unwrap_or",):
                return inner if good else self.ev(args[0], env, depth)
            if name in ("unwrap_or_else",):
                return inner if good else self.apply(self.ev(args[0], env, depth), [] if is_opt else list(v[2] or []), depth)
            if name == "unwrap_or_default":
                if good:
                    return inner
                ty_ = e.get("ty", "")
                if ty_ in ("u8", "u16", "u32", "u64", "usize"):
                    return ("int", 0)
                import re as _re
                if _re.fullmatch(r"&(?:'\w+ )?\[u8\]", ty_):
                    return ("array", [])
                raise Unknown("unwrap_or_default of " + ty_)
            if name == "map":
                if not good:
                    return v
                return ("enum", v[1], [self.apply(self.ev(args[0], env, depth), [inner], depth)])
            if name == "and_then":
                if not good:
                    return v
                return self.apply(self.ev(args[0], env, depth), [inner], depth)
            if name == "or_else":
                return v if good else self.apply(self.ev(args[0], env, depth), [] if is_opt else list(v[2] or []), depth)
            if name == "or":
                return v if good else self.ev(args[0], env, depth)
            if name == "and":
                return self.ev(args[0], env, depth) if good else v
            if name == "map_or":
                return self.apply(self.ev(args[1], env, depth), [inner], depth) if good else self.ev(args[0], env, depth)
            if name == "map_or_else":
                return self.apply(self.ev(args[1], env, depth), [inner], depth) if good else self.apply(self.ev(args[0], env, depth), [], depth)
            if name == "ok" and not is_opt:
                return ("enum", self.SOME, [inner]) if good else ("enum", self.NONE_, [])
            if name in ("ok_or", "ok_or_else") and is_opt:
                if good:
                    return ("enum", self.OK, [inner])
                ev_ = self.ev(args[0], env, depth)
                return ("enum", self.ERR, [self.apply(ev_, [], depth) if name == "ok_or_else" else ev_])
            if name == "filter" and is_opt:
                if not good:
                    return v
                c = self.apply(self.ev(args[0], env, depth), [inner], depth)
                if c[0] != "bool":
                    raise Unknown("filter predicate")
                return v if c[1] else ("enum", self.NONE_, [])
            if name in ("is_some", "is_ok"):
                return ("bool", good)
            if name in ("is_none", "is_err"):
                return ("bool", not good)
            if name in ("copied", "cloned", "as_ref", "as_deref"):
                return v
            raise Unknown("method " + p)
        if p in ("core::bool::<impl bool>::then", "core::bool::<impl bool>::then_some"):
            c = self.ev(e["recv"], env, depth)
            if c[0] != "bool":
                raise Unknown("bool::then on an undetermined condition")
            if not c[1]:
                return ("enum", self.NONE_, [])
            a0 = self.ev(e["args"][0], env, depth)
            return ("enum", self.SOME, [self.apply(a0, [], depth) if p.endswith("::then") else a0])
        if p.startswith("core::slice::<impl [T]>::") or p.startswith("core::array::<impl [T; N]>::"):
            v = self.ev(e["recv"], env, depth)
            if v[0] != "array":
                raise Unknown("%s on an arbitrary value" % name)
            xs = v[1]
            args = [self.ev(a, env, depth) for a in e["args"]]
            def bounds(r):
                if r[0] != "range":
                    raise Unknown("slice index is not a range")
                lo = 0 if r[1] is None else r[1][1]
                hi = len(xs) if r[2] is None else (r[2][1] + 1 if r[3] else r[2][1])
                return lo, hi
            if name == "len":
                return ("int", len(xs))
            if name == "is_empty":
                return ("bool", not xs)
            if name == "get" and args[0][0] == "range":
                lo, hi = bounds(args[0])
                return ("enum", self.SOME, [("array", xs[lo:hi])]) if lo <= hi <= len(xs) else ("enum", self.NONE_, [])
            if name == "get" and args[0][0] == "int":
                return ("enum", self.SOME, [xs[args[0][1]]]) if args[0][1] < len(xs) else ("enum", self.NONE_, [])
            if name in ("first_chunk", "split_first_chunk", "split_at_checked", "split_at"):
                n = None
                if name in ("split_at", "split_at_checked"):
                    n = args[0][1] if args[0][0] == "int" else None
                else:
                    import re as _re
                    m_ = _re.search(r"\[u8; (\d+)", e.get("ty", ""))
                    n = int(m_.group(1)) if m_ else None
                if n is None:
                    raise Unknown("chunk size")
                if n > len(xs):
                    if name == "split_at":
                        raise Unknown("split_at out of range (panics)")
                    return ("enum", self.NONE_, [])
                head, tail = ("array", xs[:n]), ("array", xs[n:])
                if name == "first_chunk":
                    return ("enum", self.SOME, [head])
                if name == "split_at":
                    return ("tuple", [head, tail])
                return ("enum", self.SOME, [("tuple", [head, tail])])
            if name in ("iter", "to_vec", "as_slice", "as_ref"):
                return v
            if name == "contains" and len(args) == 1:
                return ("bool", any(self.eq(x, args[0]) for x in xs))
            raise Unknown("method " + p)
        if p.startswith("core::iter::traits::iterator::Iterator::") and name in ("fold", "copied", "cloned", "find", "find_map", "any", "all", "position"):
            v = self.ev(e["recv"], env, depth)
            if v[0] != "array":
                raise Unknown("%s on an arbitrary iterator" % name)
            if name in ("copied", "cloned"):
                return v
            if name in ("find", "find_map", "any", "all", "position"):
                fv = self.ev(e["args"][0], env, depth)
                for i_, x in enumerate(v[1]):
                    r = self.apply(fv, [x], depth)
                    if name == "find_map":
                        if r[0] != "enum":
                            raise Unknown("find_map result")
                        if r[1] == self.SOME:
                            return r
                        continue
                    if r[0] != "bool":
                        raise Unknown("predicate of %s undetermined" % name)
                    if name == "find" and r[1]:
                        return ("enum", self.SOME, [x])
                    if name == "position" and r[1]:
                        return ("enum", self.SOME, [("int", i_)])
                    if name == "any" and r[1]:
                        return ("bool", True)
                    if name == "all" and not r[1]:
                        return ("bool", False)
                if name == "any":
                    return ("bool", False)
                if name == "all":
                    return ("bool", True)
                return ("enum", self.NONE_, [])
            acc = self.ev(e["args"][0], env, depth)
            fv = self.ev(e["args"][1], env, depth)
            for x in v[1]:
                acc = self.apply(fv, [acc, x], depth)
            return acc
        if name == "try_into" and "TryInto" in p:
            v = self.ev(e["recv"], env, depth)
            import re as _re
            m_ = _re.search(r"Result<&?\[u8; (\d+)", e.get("ty", ""))
            if v[0] == "array" and m_:
                return ("enum", self.OK, [v]) if len(v[1]) == int(m_.group(1)) else ("enum", self.ERR, [ANY])
            raise Unknown("try_into")
        return None

    def cond(self, c, env, depth):
        """evaluate an `if` condition; `if let PAT = E` binds into env. -> bool"""
        c = strip(c)
        if c["k"] == "letexpr":
            v = self.ev(c["init"], env, depth)
            return self.pmatch(c["pat"], v, env)
        if c["k"] == "bin" and c["op"] == "&&" and not c.get("overload"):
            # let chains / short-circuit: the right side may use bindings of the left
            if not self.cond(c["a"], env, depth):
                return False
            return self.cond(c["b"], env, depth)
        v = self.ev(c, env, depth)
        if v[0] != "bool":
            raise Unknown("if condition undetermined")
        return v[1]

    def deref_impl(self, ty):
        """the crate's `impl Deref for T` (T given as a type string, references and lifetimes ignored)"""
        import re as _re
        ty = _re.sub(r"'[\w{}]+ ", "", ty or "")
        while ty.startswith("&"):
            ty = ty[1:].lstrip()
            if ty.startswith("mut "):
                ty = ty[4:]
        m = [ff for ff in self.facts.hir_fns() if ff.get("impl_trait_path") == "core::ops::deref::Deref" and ff.get("name") == "deref"
             and _re.sub(r"'[\w{}]+ ", "", ff.get("impl_self") or "").split("<")[0] == ty.split("<")[0]]
        return m[0] if len(m) == 1 else None

    def ev(self, e, env, depth=0):
        e0 = strip(e)
        v = self.ev0(e0, env, depth)
        if e0.get("overloaded_deref"):
            # an auto-deref adjustment through a Deref impl of the crate (`&Newtype` used where `&u16` is expected)
            ty = e0.get("ty")
            for _tgt in e0["overloaded_deref"]:
                di = self.deref_impl(ty)
                if di is None:
                    raise Unknown("overloaded deref of " + str(ty))
                v = self.call_fn(di["path"], [v], depth + 1)
                ty = _tgt
        return v

    def ev0(self, e, env, depth=0):
        e = strip(e)
        k = e["k"]
        if k == "local":
            if e["id"] not in env:
                raise Unknown("unbound local " + e["name"])
            return env[e["id"]]
        if k == "lit":
            return self.lit(e)
        if k == "path":
            dk = e.get("dk", "")
            if dk.startswith("Ctor"):
                if "Const" in dk:
                    return ("enum", e["path"], [])
                return ("ctorfn", e["path"])
            if "val" in e:
                return ("int", e["val"])
            if dk in ("Fn", "AssocFn"):
                tgt = e.get("resolved") or e["path"]
                return ("fnref", tgt, bool(e.get("resolved_local") if e.get("resolved") else e.get("local")))
            c_ = self.facts.consts.get(e["path"])
            if c_ is not None and "hir" in c_:
                # a table written as a constant: its initialiser
                return self.ev(c_["hir"], {}, depth + 1)
            raise Unknown("path " + e["path"])
        if k == "addrof":
            return self.ev(e["x"], env, depth)
        if k == "un" and e["op"] == "*":
            if e.get("overload"):
                di = self.deref_impl(strip(e["a"]).get("ty"))
                if di is None:
                    raise Unknown("overloaded * on " + str(strip(e["a"]).get("ty")))
                return self.call_fn(di["path"], [self.ev(e["a"], env, depth)], depth + 1)
            return self.ev(e["a"], env, depth)
        if k == "un" and e["op"] == "!":
            v = self.ev(e["a"], env, depth)
            if v[0] == "bool":
                return ("bool", not v[1])
            raise Unknown("! on non-bool")
        if k == "tup":
            return ("tuple", [self.ev(x, env, depth) for x in e["xs"]])
        if k == "field":
            self.trace.append(("field", e["name"]))
            v = self.ev(e["x"], env, depth)
            if v[0] == "rec":
                return v[1].get(e["name"], ANY)
            if v[0] == "newtype" and e["name"] == "0":
                return v[2]
            if v[0] == "int" and e["name"] == "0":
                return v   # a constant of an integer newtype, already evaluated to its scalar
            if v[0] == "tuple" and e["name"].isdigit():
                return v[1][int(e["name"])]
            if v[0] == "any":
                return ANY
            raise Unknown("field %s of %r" % (e["name"], v[0]))
        if k == "call":
            f = strip(e["f"])
            if f["k"] == "path":
                dk = f.get("dk", "")
                if dk.startswith("Ctor"):
                    args = [self.ev(a, env, depth) for a in e["args"]]
                    if "Struct" in dk:
                        return ("newtype", f["path"], args[0] if len(args) == 1 else ("tuple", args))
                    return ("enum", f["path"], args)
                if f["path"].startswith("core::num::<impl u") and f["path"].split("::")[-1] in ("from_be_bytes", "from_le_bytes") and len(e["args"]) == 1:
                    return self.call_path(f["path"], False, [self.ev(e["args"][0], env, depth)], depth)
                if f["path"] == "core::ops::range::RangeInclusive::<Idx>::new" and len(e["args"]) == 2:
                    a, b = [self.ev(x, env, depth) for x in e["args"]]
                    a, b = [(v[2] if v[0] == "newtype" else v) for v in (a, b)]
                    return ("range", a, b, True)
                if (f.get("resolved_local") if f.get("resolved") else f.get("local")) and dk in ("Fn", "AssocFn"):
                    args = [self.ev(a, env, depth) for a in e["args"]]
                    return self.call_fn(f.get("resolved") or f["path"], args, depth + 1)
                if dk in ("Fn", "AssocFn"):
                    args = [self.ev(a, env, depth) for a in e["args"]]
                    return self.call_path(f.get("resolved") or f["path"], False, args, depth)
            if f["k"] == "local":
                fv = self.ev(f, env, depth)
                return self.apply(fv, [self.ev(a, env, depth) for a in e["args"]], depth)
            raise Unknown("call of " + str(f.get("path")))
        if k == "closure":
            return ("closure", e, dict(env))
        if k == "repeat":
            import re as _re
            m_ = _re.search(r"; (\d+)\]$", e.get("ty", ""))
            if m_:
                return ("array", [self.ev(e["x"], env, depth)] * int(m_.group(1)))
            raise Unknown("array repeat with unknown count")
        if k == "mcall":
            r = self.builtin_mcall(e, env, depth)
            if r is not None:
                return r
        if k == "mcall" and e.get("path") and e["path"].startswith("core::num::<impl u") and e["path"].split("::")[-1] in ("to_be_bytes", "to_le_bytes"):
            v = self.ev(e["recv"], env, depth)
            if v[0] == "newtype":
                v = v[2]
            bits = int(e["path"].split("<impl u")[1].split(">")[0])
            if v[0] != "int":
                raise Unknown("to_bytes of a partially known integer")
            bs = [("int", (v[1] >> (8 * i)) & 0xff) for i in range(bits // 8)]
            return ("array", bs[::-1] if e["path"].endswith("to_be_bytes") else bs)
        if k == "array":
            return ("array", [self.ev(x, env, depth) for x in e["xs"]])
        if k == "index":
            a = self.ev(e["x"], env, depth)
            i = self.ev(e["i"], env, depth)
            if a[0] == "array" and i[0] == "int" and 0 <= i[1] < len(a[1]):
                return a[1][i[1]]
            if a[0] == "array" and i[0] == "range":
                lo = 0 if i[1] is None else i[1][1]
                hi = len(a[1]) if i[2] is None else (i[2][1] + 1 if i[3] else i[2][1])
                if lo <= hi <= len(a[1]):
                    return ("array", a[1][lo:hi])
                raise Unknown("slice index out of range (panics)")
            raise Unknown("index")
        if k == "mcall" and (e.get("path") or "") in ("core::option::Option::<T>::is_some", "core::option::Option::<T>::is_none"):
            v = self.ev(e["recv"], env, depth)
            if v[0] == "enum" and v[1].startswith("core::option::Option::"):
                some = v[1].endswith("Some")
                return ("bool", some if e["path"].endswith("is_some") else not some)
            raise Unknown("is_some/is_none on arbitrary value")
        if k == "mcall" and (e.get("path") or "") in ("core::ops::range::Range::<Idx>::contains", "core::ops::range::RangeInclusive::<Idx>::contains",
                                                      "core::ops::range::RangeFrom::<Idx>::contains", "core::ops::range::RangeTo::<Idx>::contains",
                                                      "core::ops::range::RangeToInclusive::<Idx>::contains"):
            r = self.ev(e["recv"], env, depth)
            x = self.ev(e["args"][0], env, depth)
            if x[0] == "newtype":
                x = x[2]
            if r[0] != "range" or x[0] != "int" or any(b is not None and b[0] != "int" for b in (r[1], r[2])):
                raise Unknown("range test on partially known values")
            lo, hi, incl = r[1], r[2], r[3]
            ok = (lo is None or lo[1] <= x[1]) and (hi is None or (x[1] <= hi[1] if incl else x[1] < hi[1]))
            return ("bool", ok)
        if k == "mcall":
            rv = None
            try:
                rv = self.ev(e["recv"], env, depth)
            except Unknown:
                rv = None
            if rv is not None and rv[0] == "obj" and e["name"] in rv[1] and not e["args"]:
                return rv[1][e["name"]]
        if k == "mcall":
            target = e.get("resolved") or e.get("path")
            is_local = e.get("resolved_local") if e.get("resolved") else e.get("local")
            if is_local and target:
                args = [self.ev(e["recv"], env, depth)] + [self.ev(a, env, depth) for a in e["args"]]
                return self.call_fn(target, args, depth + 1)
            raise Unknown("method call " + str(target))
        if k == "match":
            inner = is_try(e)
            if inner is not None:
                # x? : the payload of Some / Ok, or an early return of None (Err residuals go through From: not modelled)
                v = self.ev(inner, env, depth)
                if v[0] == "enum" and v[1] in (self.SOME, self.OK) and v[2]:
                    return v[2][0]
                if v[0] == "enum" and v[1] == self.NONE_:
                    raise Return(v)
                raise Unknown("? operator")
            v = self.ev(e["scrut"], env, depth)
            for arm in e["arms"]:
                env2 = dict(env)
                if self.pmatch(arm["pat"], v, env2):
                    if arm.get("guard") is not None:
                        g = self.ev(arm["guard"], env2, depth)
                        if g[0] != "bool":
                            raise Unknown("guard value")
                        if not g[1]:
                            continue
                    return self.ev(arm["body"], env2, depth)
            raise Unknown("no arm matched")
        if k == "if":
            env2 = dict(env)
            if self.cond(e["c"], env2, depth):
                return self.ev(e["t"], env2, depth)
            if e.get("f") is None:
                return ("tuple", [])
            return self.ev(e["f"], env, depth)
        if k == "bin":
            if e.get("overload") and e["op"] not in ("==", "!="):
                raise Unknown("overloaded operator")
            a = self.ev(e["a"], env, depth)
            b = self.ev(e["b"], env, depth)
            op = e["op"]
            if op == "==":
                return ("bool", self.eq(a, b))
            if op == "!=":
                return ("bool", not self.eq(a, b))
            if op in ("&&", "||") and a[0] == "bool" and b[0] == "bool":
                return ("bool", (a[1] and b[1]) if op == "&&" else (a[1] or b[1]))
            if a[0] == "newtype":
                a = a[2]
            if b[0] == "newtype":
                b = b[2]
            if a[0] == "int" and b[0] == "int":
                x, y = a[1], b[1]
                if op in ("<", "<=", ">", ">="):
                    return ("bool", {"<": x < y, "<=": x <= y, ">": x > y, ">=": x >= y}[op])
                if op == "+":
                    return ("int", x + y)
                if op == "-":
                    return ("int", x - y)
                if op == "*":
                    return ("int", x * y)
                if op == "/" and y != 0:
                    return ("int", x // y)
                if op == "%" and y != 0:
                    return ("int", x % y)
                if op == "&":
                    return ("int", x & y)
                if op == "|":
                    return ("int", x | y)
                if op == "^":
                    return ("int", x ^ y)
                if op == "<<":
                    return ("int", x << y)
                if op == ">>":
                    return ("int", x >> y)
            if op in ("|", "+", "^") and a == ("int", 0):
                return b
            if op in ("|", "+", "^", "<<", ">>", "-") and b == ("int", 0):
                return a
            # big-endian assembly of opaque bytes by hand: (r0 << 24) | (r1 << 16) | (r2 << 8) | r3
            def terms(v):
                if v[0] == "sym":
                    return {v: 0}
                if v[0] == "shl":
                    return dict(v[1])
                if v[0] == "be":
                    n_ = len(v[1])
                    return {x: 8 * (n_ - 1 - i) for i, x in enumerate(v[1])}
                return None
            if op == "<<" and b[0] == "int" and terms(a) is not None:
                return ("shl", tuple(sorted(((t_, s_ + b[1]) for t_, s_ in terms(a).items()), key=str)))
            if op in ("|", "+", "^") and terms(a) is not None and terms(b) is not None:
                ta, tb = terms(a), terms(b)
                if not (set(ta) & set(tb)) and len(set(ta.values()) | set(tb.values())) == len(ta) + len(tb):
                    allt = dict(ta)
                    allt.update(tb)
                    by = sorted(allt.items(), key=lambda kv: -kv[1])
                    if [s_ for _, s_ in by] == [8 * i for i in range(len(by) - 1, -1, -1)]:
                        return ("be", [t_ for t_, _ in by])
                    return ("shl", tuple(sorted(allt.items(), key=str)))
            raise Unknown("binary %s on %s,%s" % (op, a[0], b[0]))
        if k == "cast":
            v = self.ev(e["x"], env, depth)
            if v[0] == "newtype":
                v = v[2]
            if v[0] == "int":
                bits = {"u8": 8, "u16": 16, "u32": 32, "u64": 64, "usize": 64}.get(e["ty"])
                if bits:
                    return ("int", v[1] & ((1 << bits) - 1))
            if v[0] == "enum" and not v[2] and e.get("ty") in ("u8", "u16", "u32", "u64", "usize", "i32", "isize"):
                # a fieldless enum cast to an integer is its discriminant
                adt = self.facts.adts.get(v[1].rsplit("::", 1)[0])
                if adt is not None and adt.get("dk") == "Enum":
                    for var in adt["variants"]:
                        if var["name"] == v[1].rsplit("::", 1)[1] and "discr" in var and not var["fields"]:
                            return ("int", var["discr"])
            if v[0] == "sym" and e.get("ty") in ("u16", "u32", "u64", "usize") and (strip(e["x"]).get("ty") in ("u8", "&u8")):
                return v   # widening of an opaque byte
            raise Unknown("cast")
        if k == "block":
            env2 = dict(env)
            for s in e["stmts"]:
                if s["k"] == "let":
                    if s.get("els") is not None or s.get("init") is None:
                        raise Unknown("let-else / uninitialised let")
                    v = self.ev(s["init"], env2, depth)
                    if not self.pmatch(s["pat"], v, env2):
                        raise Unknown("let pattern")
                elif s["k"] in ("semi", "sexpr"):
                    se = strip(s["e"])
                    if se["k"] in ("ret", "if", "match", "block"):
                        # evaluated for its control flow only (`return` inside raises Return); the language has no
                        # side effects that the abstract values could observe (assignments are not modelled: Unknown)
                        self.ev(se, env2, depth)
                        continue
                    raise Unknown("statement " + se["k"])
                elif s["k"] == "item":
                    continue
                else:
                    raise Unknown("statement kind " + s["k"])
            if e["expr"] is None:
                return ("tuple", [])
            return self.ev(e["expr"], env2, depth)
        if k == "ret":
            raise Return(self.ev(e["x"], env, depth) if e.get("x") is not None else ("tuple", []))
        if k == "struct":
            res = e["res"]
            if e.get("base") is not None:
                raise Unknown("struct update syntax")
            rp = (res or {}).get("path", "") if isinstance(res, dict) else ""
            if rp.startswith("core::ops::range::Range"):
                fs = {f["name"]: self.ev(f["e"], env, depth) for f in e["fields"]}
                fs = {n: (v[2] if v[0] == "newtype" else v) for n, v in fs.items()}
                return ("range", fs.get("start"), fs.get("end"), "Inclusive" in rp)
            return ("rec", {f["name"]: self.ev(f["e"], env, depth) for f in e["fields"]})
        raise Unknown("expression kind " + k)
