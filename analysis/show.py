"""Debug pretty-printer of the extracted HIR (compact s-expression)."""
import json, sys

def sx(e, depth=0):
    if e is None: return "∅"
    k = e.get("k")
    if k == "local": return "%s#%d" % (e["name"], e["id"])
    if k == "path":
        r = e.get("resolved")
        v = e.get("val")
        return e["path"] + (("=>" + r) if r else "") + (("=%d" % v) if v is not None else "") + (("<%s>" % ",".join(e["args"])) if e.get("args") else "")
    if k == "lit":
        for f in ("v", "b", "s", "bytes", "c"):
            if f in e: return repr(e[f])
        return "lit?"
    if k == "call": return "(%s %s)" % (sx(e["f"]), " ".join(sx(a) for a in e["args"]))
    if k == "mcall": return "(.%s[%s] %s %s)" % (e["name"], e.get("resolved") or e.get("path"), sx(e["recv"]), " ".join(sx(a) for a in e["args"]))
    if k == "bin": return "(%s %s %s)" % (e["op"], sx(e["a"]), sx(e["b"]))
    if k == "un": return "(%s %s)" % (e["op"], sx(e["a"]))
    if k == "cast": return "(%s as %s)" % (sx(e["x"]), e["ty"])
    if k in ("droptemps", "use", "ascribe"): return sx(e["x"])
    if k == "field": return "%s.%s" % (sx(e["x"]), e["name"])
    if k == "index": return "%s[%s]" % (sx(e["x"]), sx(e["i"]))
    if k == "addrof": return "&%s%s" % ("mut " if e["mut"] else "", sx(e["x"]))
    if k == "tup": return "(tup %s)" % " ".join(sx(a) for a in e["xs"])
    if k == "array": return "[%s]" % " ".join(sx(a) for a in e["xs"])
    if k == "ret": return "(return %s)" % sx(e["x"])
    if k == "if": return "(if %s %s %s)" % (sx(e["c"]), sx(e["t"]), sx(e["f"]))
    if k == "struct": return "%s{%s%s}" % (e["res"]["path"], " ".join("%s:%s" % (f["name"], sx(f["e"])) for f in e["fields"]), (" .." + sx(e["base"])) if e.get("base") else "")
    if k == "closure": return "(\\%s. %s)" % (" ".join(px(p) for p in e["params"]), sx(e["body"]))
    if k == "match":
        return "(match/%s %s %s)" % (e["src"], sx(e["scrut"]), " ".join("[%s%s => %s]" % (px(a["pat"]), (" if " + sx(a["guard"])) if a["guard"] else "", sx(a["body"])) for a in e["arms"]))
    if k == "block":
        parts = []
        for s in e["stmts"]:
            if s["k"] == "let": parts.append("(let %s = %s%s)" % (px(s["pat"]), sx(s["init"]), (" else " + sx(s["els"])) if s["els"] else ""))
            elif s["k"] in ("semi", "sexpr"): parts.append(sx(s["e"]) + ";")
            else: parts.append(s["k"])
        if e["expr"]: parts.append(sx(e["expr"]))
        return "{%s}" % "\n  ".join(parts)
    if k == "letexpr": return "(let %s = %s)" % (px(e["pat"]), sx(e["init"]))
    if k == "assign": return "(%s := %s)" % (sx(e["a"]), sx(e["b"]))
    if k == "assignop": return "(%s %s= %s)" % (sx(e["a"]), e["op"], sx(e["b"]))
    return "<%s>" % k

def px(p):
    k = p["k"]
    if k == "wild": return "_"
    if k == "bind": return "%s#%d%s" % (p["name"], p["id"], ("@" + px(p["sub"])) if p.get("sub") else "")
    if k == "ptuple": return "(%s)" % ",".join(px(x) for x in p["pats"])
    if k == "ptuplestruct": return "%s(%s)" % (p["res"]["path"], ",".join(px(x) for x in p["pats"]))
    if k == "pstruct": return "%s{%s%s}" % (p["res"]["path"], ",".join("%s:%s" % (f["name"], px(f["pat"])) for f in p["fields"]), ",.." if p["rest"] else "")
    if k == "por": return "|".join(px(x) for x in p["pats"])
    if k in ("pref", "pderef"): return "&" + px(p["pat"])
    if k == "pexpr": return sx(p["e"])
    if k == "prange": return "%s..%s" % (sx(p["lo"]), sx(p["hi"]))
    return "<%s>" % k

if __name__ == "__main__":
    facts = json.load(open(sys.argv[1]))
    pat = sys.argv[2]
    for f in facts["fns"]:
        if pat in f["path"] and "hir" in f:
            print("==", f["path"], f["dk"], f.get("loc"), "exported" if f.get("exported") else "")
            print("  params:", " ".join(px(p) for p in f["params"]))
            print(" ", sx(f["hir"]))
            if "mir" in f and len(sys.argv) > 3:
                for a in f["mir"]["asserts"]: print("  ASSERT", a["kind"], a["loc"], a.get("mx"))
                for c in f["mir"]["calls"]: print("  CALL", c.get("resolved") or c["callee"], c["loc"], c.get("mx"))
