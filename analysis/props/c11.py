"""C11 - unknown enumerated code points are accepted and preserved."""
import json
from ..gcommon import *
from ..grammar_check import free_vars

# (function, accessor from the returned value to the code point, bits, what)
# accessor steps: "f:<field>" struct field, "a:<i>" constructor argument, "t:<i>" tuple item, "some", "case:<k>", "default",
#                 "then", "else", "in" (into sub/opt/complete/many/cond/peek result), "elem" (element of a decoded list);
#                 "a:<i>@<Variant>" restricts to that variant.  Branch names are documentation only: every branch is followed.
TH = "tls_handshake::"
FIELDS = [
    ("tls_record::parse_tls_raw_record", ["f:hdr", "f:record_type"], 8, "content type of raw records"),
    ("tls_record::parse_tls_raw_record", ["f:hdr", "f:version"], 16, "record version (raw)"),
    ("tls_record::parse_tls_encrypted", ["f:hdr", "f:record_type"], 8, "content type of encrypted records"),
    ("tls_record::parse_tls_encrypted", ["f:hdr", "f:version"], 16, "record version (encrypted)"),
    ("tls_record::parse_tls_plaintext", ["f:hdr", "f:version"], 16, "record version (plaintext)"),
    ("tls_handshake::parse_tls_handshake_client_hello", ["f:version"], 16, "ClientHello version"),
    ("tls_handshake::parse_tls_handshake_client_hello", ["f:ciphers", "else", "elem"], 16, "cipher-suite ids"),
    ("tls_handshake::parse_tls_handshake_client_hello", ["f:comp", "else", "elem"], 8, "compression ids"),
    ("tls_handshake::parse_tls_handshake_server_hello", ["case:771", "f:cipher"], 16, "ServerHello cipher"),
    ("tls_handshake::parse_tls_handshake_server_hello", ["case:771", "f:compression"], 8, "ServerHello compression"),
    ("tls_handshake::parse_tls_handshake_server_hello", ["case:768", "f:cipher"], 16, "SSLv3 ServerHello cipher"),
    ("tls_handshake::parse_tls_handshake_msg_hello_retry_request", ["a:0", "f:version"], 16, "HelloRetryRequest version"),
    ("tls_handshake::parse_tls_handshake_msg_hello_retry_request", ["a:0", "f:cipher"], 16, "HelloRetryRequest cipher"),
    ("tls_handshake::parse_tls_handshake_msg_key_update", ["a:0"], 8, "key-update value"),
    ("tls_handshake::parse_tls_handshake_certificatestatus", ["f:status_type"], 8, "certificate-status type (message)"),
    ("tls_handshake::parse_tls_handshake_certificaterequest", ["alt:0", "in", "f:cert_types", "elem"], 8, "certificate types"),
    ("tls_handshake::parse_tls_handshake_certificaterequest", ["alt:1", "in", "f:cert_types", "elem"], 8, "certificate types (legacy form)"),
    ("tls_handshake::parse_tls_handshake_certificaterequest", ["alt:0", "in", "f:sig_hash_algs", "some", "in", "elem"], 16, "signature/hash algorithms (certificate request)"),
    ("tls_message::parse_tls_message_alert", ["a:0", "f:severity"], 8, "alert level"),
    ("tls_message::parse_tls_message_alert", ["a:0", "f:code"], 8, "alert description"),
    ("tls_message::parse_tls_message_heartbeat", ["vec:0", "a:0", "f:heartbeat_type"], 8, "heartbeat type"),
    ("tls_extensions::parse_tls_extension", ["else", "in", "default", "a:0@Unknown"], 16, "extension type (Unknown) [selector]"),
    ("tls_extensions::parse_tls_client_hello_extension", ["else", "in", "default", "a:0@Unknown"], 16, "client extension type (Unknown) [selector]"),
    ("tls_extensions::parse_tls_server_hello_extension", ["else", "in", "default", "a:0@Unknown"], 16, "server extension type (Unknown) [selector]"),
    ("tls_extensions::parse_tls_extension_unknown", ["a:0"], 16, "extension type (parse_tls_extension_unknown)"),
    ("tls_extensions::parse_tls_extension_sni_hostname", ["t:0"], 8, "SNI name type"),
    ("tls_extensions::parse_tls_extension_status_request", ["in", "default", "a:0", "some", "t:0"], 8, "certificate-status type (extension)"),
    ("tls_extensions::parse_tls_extension_elliptic_curves_content", ["in", "a:0", "else", "elem"], 16, "named groups"),
    ("tls_extensions::parse_tls_extension_signature_algorithms_content", ["a:0", "in", "elem"], 16, "signature schemes"),
    ("tls_extensions::parse_tls_extension_supported_versions", ["in", "then", "a:0", "vec:0"], 16, "selected version"),
    ("tls_extensions::parse_tls_extension_supported_versions", ["in", "else", "a:0", "in", "else", "elem"], 16, "supported versions list"),
    ("tls_extensions::parse_tls_extension_encrypted_server_name", ["f:ciphersuite"], 16, "ESNI cipher suite"),
    ("tls_extensions::parse_tls_extension_encrypted_server_name", ["f:group"], 16, "ESNI named group"),
    ("tls_extensions::parse_tls_extension_heartbeat_content", ["a:0"], 8, "heartbeat mode"),
    ("tls_extensions::parse_tls_extension_max_fragment_length_content", ["a:0"], 8, "max fragment length code"),
    ("tls_ec::parse_ec_parameters", ["f:params_content", "case:3", "a:0@NamedGroup"], 16, "named curve"),
    ("tls_sign_hash::parse_digitally_signed", ["f:alg", "some", "f:hash"], 8, "hash algorithm"),
    ("tls_sign_hash::parse_digitally_signed", ["f:alg", "some", "f:sign"], 8, "signature algorithm"),
    ("certificate_transparency::parse_ct_signed_certificate_timestamp", ["in", "f:version"], 8, "CT version"),
    ("dtls::parse_dtls_plaintext_record", ["f:header", "f:version"], 16, "DTLS record version"),
    # message versions and ids inside DTLS handshake messages (anchored at the exported dispatcher, through its arms)
    ("dtls::parse_dtls_message_handshake", ["a:0", "f:body", "a:0@ClientHello", "f:version"], 16, "DTLS ClientHello version"),
    ("dtls::parse_dtls_message_handshake", ["a:0", "f:body", "a:0@ClientHello", "f:ciphers", "elem"], 16, "DTLS cipher-suite ids"),
    ("dtls::parse_dtls_message_handshake", ["a:0", "f:body", "a:0@ClientHello", "f:comp", "elem"], 8, "DTLS compression ids"),
    ("dtls::parse_dtls_message_handshake", ["a:0", "f:body", "a:0@HelloVerifyRequest", "f:server_version"], 16, "HelloVerifyRequest version"),
    ("dtls::parse_dtls_message_handshake", ["a:0", "f:body", "a:0@ServerHello", "f:version"], 16, "DTLS ServerHello version"),
    ("dtls::parse_dtls_message_handshake", ["a:0", "f:body", "a:0@ServerHello", "f:cipher"], 16, "DTLS ServerHello cipher"),
    ("dtls::parse_dtls_message_handshake", ["a:0", "f:body", "a:0@ServerHello", "f:compression"], 8, "DTLS ServerHello compression"),
]
# raw byte lists returned verbatim (every value preserved by construction): (function, accessor, what)
RAW_LISTS = [
    ("tls_extensions::parse_tls_extension_psk_key_exchange_modes_content", ["a:0"], "PSK modes"),
    ("tls_extensions::parse_tls_extension_ec_point_formats_content", ["a:0"], "EC point formats"),
]
# field types that must be open (integer or public newtype over an integer)
OPEN_TYPES = ["tls_record::TlsRecordType", "tls_handshake::TlsVersion", "tls_handshake::TlsCipherSuiteID", "tls_handshake::TlsCompressionID", "tls_alert::TlsAlertSeverity",
              "tls_alert::TlsAlertDescription", "tls_handshake::TlsHeartbeatMessageType", "tls_extensions::TlsExtensionType", "tls_ec::NamedGroup", "tls_sign_hash::HashAlgorithm",
              "tls_sign_hash::SignAlgorithm", "tls_sign_hash::SignatureScheme", "tls_extensions::SNIType", "tls_extensions::CertificateStatusType", "tls_extensions::PskKeyExchangeMode",
              "certificate_transparency::CtVersion", "tls_handshake::KeyUpdateRequest", "tls_handshake::TlsHandshakeType", "tls_ec::ECCurveType"]


class NotFound(Exception):
    pass


from ..grammar_props import TABLE as _TABLE
from ..grammar_check import spec_seq
SPEC_OF = {p: s for p, s, _ in _TABLE}


def defs(seq, acc=None):
    acc = {} if acc is None else acc
    def add(st, p):
        if st[0] in ("u", "bytes", "peek", "sub", "opt", "complete", "many0", "many1", "all_consuming", "cut", "cond", "count", "alt", "ite", "switch", "param_parser", "opaque"):
            acc[st[1]] = st
    walk_steps(seq, add)
    return acc


WRAPPERS2 = ("peek", "opt", "complete", "many0", "many1", "all_consuming", "cut")
WRAPPERS3 = ("sub", "cond", "count")


def ret_of(sq):
    return sq["ret"][1] if sq["ret"] and sq["ret"][0] in ("ok", "okwhole") else None


def alternatives(sym, D):
    """values a binder of a wrapper / branching step can stand for: the ok-returns of its nested grammars
    (None if sym is not such a binder)"""
    if not (sym[0] == "v" and sym[1] in D):
        return None
    st = D[sym[1]]
    k = st[0]
    if k in WRAPPERS2:
        seqs = [st[2]]
    elif k in WRAPPERS3:
        seqs = [st[3]]
    elif k == "alt":
        seqs = list(st[2])
    elif k == "ite":
        seqs = [st[3], st[4]]
    elif k == "switch":
        seqs = [sq for _, sq in st[3]] + [st[4]]
    else:
        return None
    return [r for r in (ret_of(s) for s in seqs) if r is not None]


def descend(sym, D, want_elem=False):
    a = alternatives(sym, D)
    return a[0] if a and len(a) == 1 else None


CONTROL = ("in", "then", "else", "default")


def resolve_all(sym, acc, D):
    """follow an accessor through every branch: binders of wrappers (complete/opt/sub/...) and of branching steps
    (if / match / alt) are looked through automatically, so the accessor names only fields, constructor arguments
    and list elements; the branch names of the table ("then", "case:k", ...) are documentation.  Returns every value
    that can reach the named place.  Alternatives of a different shape (another variant, None, an empty list) are
    not the place the row is about and are left to their own rows; no alternative at all is NotFound."""
    acc = [a for a in acc if a not in CONTROL and not a.startswith("alt:") and not a.startswith("case:")]
    leaves = []
    misses = []

    def go(sym, i, depth):
        if depth > 60:
            raise NotFound("accessor loop")
        if sym[0] == "ifv":
            go(sym[2], i, depth + 1); go(sym[3], i, depth + 1); return
        if sym[0] == "matchv":
            for _, v in sym[2]:
                go(v, i, depth + 1)
            return
        if i == len(acc):
            alts = alternatives(sym, D)
            if alts is not None and D[sym[1]][0] not in ("many0", "many1", "count"):
                for x in alts:
                    go(x, i, depth + 1)
                return
            leaves.append(sym)
            return
        a = acc[i]
        st = D.get(sym[1]) if sym[0] == "v" else None
        if a == "elem":
            if sym[0] in ("map_chunks2", "map_each"):
                return go(["listelem", sym[0], sym[2]], i + 1, depth + 1)
            if sym[0] == "vec" and not sym[1]:
                return  # the empty list has no elements
            if st is not None and st[0] in ("many0", "many1", "count"):
                inner = (st[2] if st[0] != "count" else st[3])["ret"][1]
                return go(inner, i + 1, depth + 1)
        if a.startswith("f:") and sym[0] == "struct":
            m = [v for kk, v in sym[2] if kk == a[2:]]
            if not m:
                misses.append("no field " + a[2:]); return
            return go(m[0], i + 1, depth + 1)
        if a.startswith("a:") and sym[0] in ("ctor", "unit"):
            idx, _, only = a[2:].partition("@")
            if only and not sym[1].endswith("::" + only):
                return  # another variant: not the place this row is about
            if sym[0] == "ctor" and int(idx) < len(sym[2]):
                return go(sym[2][int(idx)], i + 1, depth + 1)
        if a.startswith("t:") and sym[0] == "tuple":
            return go(sym[1][int(a[2:])], i + 1, depth + 1)
        if a.startswith("vec:") and sym[0] == "vec" and int(a[4:]) < len(sym[1]):
            return go(sym[1][int(a[4:])], i + 1, depth + 1)
        if a == "some" and sym[0] == "ctor" and sym[1].endswith("Option::Some"):
            return go(sym[2][0], i + 1, depth + 1)
        if a == "some" and sym == ["unit", "core::option::Option::None"]:
            return
        if a == "some" and st is not None and st[0] in ("cond", "opt"):
            # cond(c, p) / opt(p) yield Some(value of p) or None
            inner = ret_of(st[3] if st[0] == "cond" else st[2])
            if inner is not None:
                return go(inner, i + 1, depth + 1)
        if a == "some" and sym[0] == "nonempty":
            return go(sym[1], i + 1, depth + 1)
        alts = alternatives(sym, D)
        if alts is not None:
            for x in alts:
                go(x, i, depth + 1)
            return
        misses.append("accessor %s on %s" % (a, sym[0]))

    go(sym, 0, 0)
    if not leaves:
        raise NotFound("; ".join(misses[:3]) or "no value reaches it")
    return leaves


def resolve(sym, acc, D):
    return resolve_all(sym, acc, D)[0]


def wire_signature(b, seq):
    """identity of a wire integer that does not depend on binder numbering: the kinds and widths of the consuming
    steps that precede it in its own (innermost) sequence"""
    found = []
    def rec(sq):
        sig = []
        for st in sq["steps"]:
            if st[0] == "u" and st[1] == b:
                found.append(tuple(sig))
                return True
            if st[0] in ("u",):
                sig.append(("u", st[2]))
            elif st[0] in ("bytes", "tag", "sub", "opt", "cond", "count", "many0", "many1", "complete", "alt", "ite", "switch"):
                sig.append((st[0],))
            for x in st:
                if isinstance(x, dict) and rec(x):
                    return True
                if isinstance(x, list):
                    for y in x:
                        if isinstance(y, dict) and rec(y):
                            return True
                        if isinstance(y, list) and len(y) == 2 and isinstance(y[1], dict) and rec(y[1]):
                            return True
        return False
    rec(seq)
    return found[0] if found else None


def path_conds(b, seq):
    """the conditions under which the wire integer b is read at all: the enclosing cond / if / match steps with the arm
    taken, outermost first; binders inside the conditions are named by their wire signature (independent of numbering)"""
    def norm(x):
        if isinstance(x, list):
            if len(x) == 2 and x[0] == "v" and isinstance(x[1], str):
                return ["w", list(wire_signature(x[1], seq) or ("?" + x[1],))]
            if x and x[0] == "tt" and len(x) > 1 and isinstance(x[1], str):
                return ["tt", list(wire_signature(x[1], seq) or ("?" + x[1],))] + [norm(y) for y in x[2:]]
            return [norm(y) for y in x]
        return x
    found = []
    def rec(sq, path):
        for st in sq["steps"]:
            k = st[0]
            if k == "u" and st[1] == b:
                found.append(list(path))
                return True
            if k == "cond":
                if rec(st[3], path + [["cond", norm(st[2])]]):
                    return True
            elif k == "ite":
                if rec(st[3], path + [["if", norm(st[2]), True]]) or rec(st[4], path + [["if", norm(st[2]), False]]):
                    return True
            elif k == "switch":
                for c, a in st[3]:
                    if rec(a, path + [["case", norm(st[2]), c]]):
                        return True
                if rec(st[4], path + [["case", norm(st[2]), "default:" + ",".join(str(c) for c, _ in st[3])]]):
                    return True
            elif k in ("peek", "opt", "complete", "many0", "many1", "all_consuming", "cut"):
                if rec(st[2], path):
                    return True
            elif k in ("sub", "count"):
                if rec(st[3], path):
                    return True
            elif k == "alt":
                for i_, a in enumerate(st[2]):
                    if rec(a, path + [["alt", i_]]):
                        return True
        return False
    rec(seq, [])
    return json.dumps(found[0]) if found else None


def read_positions(seq):
    """static byte ranges of the wire integers of a grammar: binder -> (input space, start, end, after_rewind, branch path).
    Offsets are tracked through fixed-width elements only; arms of a branch / alternative start at the same offset.
    branch path: tuple of (branching step, kind, arm index) leading to the read."""
    out = {}

    def walk(sq, space, pos, rew, bp):
        for st in sq["steps"]:
            k = st[0]
            if k == "u":
                w = st[2] // 8
                out[st[1]] = (space, pos, None if pos is None else pos + w, rew, bp)
                pos = None if pos is None else pos + w
            elif k == "bytes":
                pos = pos + st[2][1] if pos is not None and st[2][0] == "n" else None
            elif k == "tag":
                pos = None if pos is None else pos + len(st[1])
            elif k == "rewind":
                pos, rew = None, True
            elif k == "guard":
                pass
            elif k == "peek":
                walk(st[2], space, pos, rew, bp)
            elif k == "sub":
                walk(st[3], "in:" + st[1], 0, False, bp)
            elif k in ("complete", "all_consuming", "cut"):
                pos = walk(st[2], space, pos, rew, bp)
            elif k == "opt":
                walk(st[2], space, pos, rew, bp); pos = None
            elif k == "cond":
                walk(st[3], space, pos, rew, bp); pos = None
            elif k in ("many0", "many1"):
                walk(st[2], space, None, rew, bp); pos = None
            elif k == "count":
                walk(st[3], space, None, rew, bp); pos = None
            elif k == "alt":
                for i, s in enumerate(st[2]):
                    walk(s, space, pos, rew, bp + ((st[1], "alt", i),))
                pos = None
            elif k == "ite":
                e1, e2 = walk(st[3], space, pos, rew, bp + ((st[1], "x", 0),)), walk(st[4], space, pos, rew, bp + ((st[1], "x", 1),))
                pos = e1 if e1 == e2 else None
            elif k == "switch":
                ends = [walk(s, space, pos, rew, bp + ((st[1], "x", i),)) for i, (_, s) in enumerate(st[3])] + [walk(st[4], space, pos, rew, bp + ((st[1], "x", -1),))]
                pos = ends[0] if all(x == ends[0] for x in ends) else None
            else:
                pos = None
        return pos
    walk(seq, "top", 0, False, ())
    return out


def exclusive(p, q):
    """two reads on different arms of an if / match never happen in the same run (arms of an alt are tried in turn: not exclusive)"""
    for a, b in zip(p, q):
        if a == b:
            continue
        return a[0] == b[0] and a[1] == "x"
    return False


def structural_vars(seq):
    """binders that decide the structure: mentioned in a condition / dispatch, or used as a length or a count"""
    out = set(cond_vars(seq))
    def add(st, p):
        if st[0] in ("bytes", "count"):
            fv = set()
            free_vars(st[2], fv)
            out.update(x for x in fv if not x.startswith("?"))
    walk_steps(seq, add)
    # a value looked at through a wrapper (peek, complete, a branch ..) is what its nested grammar read: testing the
    # wrapper's result tests those reads
    D = defs(seq)
    work = list(out)
    while work:
        b = work.pop()
        alts = alternatives(["v", b], D)
        for r in alts or []:
            fv = set()
            free_vars(r, fv)
            for x in fv:
                if not x.startswith("?") and x not in out:
                    out.add(x)
                    work.append(x)
    return out


def cond_vars(seq):
    """binders mentioned in any condition / dispatch scrutinee of the sequence"""
    out = set()
    def add(st, p):
        conds = []
        if st[0] == "guard":
            conds.append(st[1])
        elif st[0] in ("ite", "cond"):
            conds.append(st[2])
        elif st[0] == "switch":
            conds.append(st[2])
        for c in conds:
            if c and c[0] == "tt":
                out.add(c[1])
            else:
                fv = set()
                free_vars(c, fv)
                out.update(x for x in fv if not x.startswith("?"))
    walk_steps(seq, add)
    return out


def run(tier, repo):
    rp = Report("C11", tier)
    F = load(repo)
    rp.configs.append("default")
    rp.rule("UNCONSTRAINED", "the wire integer feeding the field is a bare primitive of the field's width, reaches the field unchanged (possibly wrapped in its newtype), and is mentioned in no guard, verify, dispatch or condition of the parser")
    rp.rule("OPEN-TYPE", "the field's type is an integer or a tuple newtype with a public integer field (no closed Rust enum on the wire path)")
    rp.rule("UNKNOWN-FALLBACK", "extension dispatchers keep type and data of unknown types (see also C05)")
    cache = {}
    n = 0
    for path, acc, bits, what in FIELDS:
        f = F.fn(path)
        key = "%s/%s" % (path.split("::")[-1], what)
        if f is None:
            rp.fail("UNCONSTRAINED", key + "/missing", path, "parser %s not found" % path)
            continue
        if path not in cache:
            try:
                cache[path] = code_seq(F, path)[0]
            except Opaque as o:
                rp.fail("UNCONSTRAINED", key + "/unrecognised", site(f), "construct the analysis cannot read: %s" % o)
                continue
        seq = cache[path]
        rp.functions.add(path)
        D = defs(seq)
        try:
            if seq["ret"][0] != "ok":
                raise NotFound("function does not return a value")
            syms = resolve_all(seq["ret"][1], acc, D)
        except NotFound as nf:
            rp.fail("UNCONSTRAINED", key + "/shape", site(f), "%s is not found in the value the parser returns (%s): the code point is dropped, transformed or conditional" % (what, nf))
            continue
        n += 1
        # the same accessor on the reference grammar must reach the same wire element (binder names are canonical):
        # a field fed by another, equally unconstrained integer (e.g. two swapped u16 fields) is not "returned unchanged"
        def core(x):
            return x[2][0] if x[0] == "ctor" and len(x[2]) == 1 else x
        specfn = SPEC_OF.get(path)
        if specfn is not None:
            try:
                sseq = spec_seq(specfn)
                ssyms = resolve_all(sseq["ret"][1], acc, defs(sseq))
                def sig(x, sq):
                    x = core(x)
                    # where in its wire structure the integer sits, and under which conditions it is read at all
                    return ("u",) + tuple(wire_signature(x[1], sq) or ()) + ("when", path_conds(x[1], sq)) if x[0] == "v" else (x[0],)
                want_s, got_s = set(sig(x, sseq) for x in ssyms), set(sig(x, seq) for x in syms)
                rp.check(want_s == got_s, "UNCONSTRAINED", key + "/same-wire-element", site(f), "%s is fed by a different wire element than in the reference grammar, or read under different conditions" % what,
                         expected=str(sorted(want_s)), found=str(sorted(got_s)), why_ok="same position in its wire structure as in the reference grammar")
            except NotFound:
                pass
        cv = None
        for sym in syms:
            if sym[0] == "listelem":
                lam = sym[2]
                body = lam[2] if lam[0] == "lam" else None
                inner = body[2][0] if body and body[0] == "ctor" and len(body[2]) == 1 else body
                want = ["be16", ["lp", 0]] if bits == 16 else ["lp", 0]
                rp.check(inner == want, "UNCONSTRAINED", key, site(f), "list element is not the plain %d-bit wire value" % bits, expected=want, found=inner, why_ok="every %d-bit element is kept as is" % bits)
                continue
            sym = core(sym)
            ok = sym[0] == "v" and sym[1] in D and D[sym[1]][0] == "u" and D[sym[1]][2] == bits
            if not rp.check(ok, "UNCONSTRAINED", key, site(f), "%s is not a bare %d-bit wire integer" % (what, bits), found=sym_str(sym) if isinstance(sym, list) else sym, why_ok="bare u%d, unchanged" % bits):
                continue
            if cv is None:
                cv = cond_vars(seq)
            if what.endswith("[selector]"):
                # the extension type selects the content grammar (the property says so); what must hold is that the
                # catch-all arm keeps the type unchanged, which is the accessor just resolved
                rp.ok("UNKNOWN-FALLBACK", site(f), key, "catch-all arm returns Unknown(type, data) with the bare u16")
                continue
            rp.check(sym[1] not in cv, "UNCONSTRAINED", key + "/no-condition", site(f), "%s is tested by a guard / verify / dispatch: some values are rejected or change the structure" % what,
                     found="binder %s appears in a condition" % sym[1], why_ok="mentioned in no condition")
            # the same bytes read a second time (another alternative of an alt, a re-read after a rewind) by an element that
            # decides the structure: the code point is tested through that other element
            pos = read_positions(seq)
            sv = structural_vars(seq)
            me = pos.get(sym[1])
            clash = []
            if me is not None:
                for ob, (sp, s0, e0, rw0, bp0) in pos.items():
                    if ob == sym[1] or ob not in sv or sp != me[0] or exclusive(bp0, me[4]):
                        continue
                    if me[3] or rw0:
                        clash.append(ob)  # alignment unknown after a re-read of consumed bytes
                    elif None not in (s0, e0, me[1], me[2]) and s0 < me[2] and me[1] < e0:
                        clash.append(ob)
            rp.check(not clash, "UNCONSTRAINED", key + "/no-overlap", site(f), "the bytes of %s are also read by an element that decides the structure (another alternative / a re-read): some values are rejected or decoded differently" % what,
                     found="binder %s overlaps %s" % (sym[1], clash), why_ok="its bytes are read by no structure-deciding element")
    # extension types that do not reach the Unknown fallback must be known (IANA) types: an unregistered type captured by a
    # dispatch arm is not preserved
    known = set(G.EXT_CONTENT)
    for name in ("parse_tls_extension", "parse_tls_client_hello_extension", "parse_tls_server_hello_extension"):
        pth = "tls_extensions::" + name
        if pth in cache or F.fn(pth):
            try:
                seq = cache.get(pth) or code_seq(F, pth)[0]
            except Opaque as o:
                rp.fail("UNKNOWN-FALLBACK", name + "/unrecognised", site(F.fn(pth)), "construct the analysis cannot read: %s" % o)
                continue
            consts = []
            def grab(st, p_):
                if st[0] == "switch" and not consts:
                    consts.extend(c for c, _ in st[3])
            walk_steps(seq, grab)
            extra = sorted(set(consts) - known)
            rp.check(bool(consts) and not extra, "UNKNOWN-FALLBACK", name + "/dispatched-types-are-known", site(F.fn(pth)), "unregistered extension type(s) %s are captured by a dispatch arm instead of being preserved as Unknown" % [hex(x) for x in extra],
                     found=[hex(x) for x in extra], why_ok="%d dispatched types, all IANA-known" % len(consts))
    for path, acc, what in RAW_LISTS:
        f = F.fn(path)
        key = "%s/%s" % (path.split("::")[-1], what)
        if f is None:
            rp.fail("UNCONSTRAINED", key + "/missing", path, "parser %s not found" % path)
            continue
        try:
            seq = code_seq(F, path)[0]
        except Opaque as o:
            rp.fail("UNCONSTRAINED", key + "/unrecognised", site(f), "construct the analysis cannot read: %s" % o)
            continue
        D = defs(seq)
        try:
            sym = resolve(seq["ret"][1], acc, D)
        except NotFound as nf:
            rp.fail("UNCONSTRAINED", key + "/shape", site(f), "%s: %s" % (what, nf))
            continue
        if sym[0] == "mcall" and sym[1].endswith("to_vec"):
            sym = sym[2][0]
        ok = sym[0] == "v" and sym[1] in D and D[sym[1]][0] == "bytes" and sym[1] not in cond_vars(seq)
        rp.check(ok, "UNCONSTRAINED", key, site(f), "%s are not returned as the raw length-prefixed bytes" % what, found=sym_str(sym), why_ok="raw bytes, every value preserved")
    for t in OPEN_TYPES:
        a = F.adts.get(t)
        if not rp.check(a is not None, "OPEN-TYPE", t + "/present", t, "registry type %s not found" % t):
            continue
        ok = a["dk"] == "Struct" and len(a["variants"]) == 1 and len(a["variants"][0]["fields"]) == 1 and a["variants"][0]["fields"][0]["ty"] in ("u8", "u16") and a["variants"][0]["fields"][0]["public"]
        rp.check(ok, "OPEN-TYPE", t, site(a), "%s is not a public newtype over u8/u16 (a closed enum cannot represent unregistered values)" % t, found=(a["dk"], [fl["ty"] for v in a["variants"] for fl in v["fields"]][:4]),
                 why_ok="pub struct over " + (a["variants"][0]["fields"][0]["ty"] if ok else "?"))
    # TryFrom / TryFromPrimitive on the wire path: no call to a fallible conversion inside parser bodies
    from ..core import walk, callee_of
    bad = []
    for f in all_parser_fns(F):
        for e in walk(f["hir"]):
            c = callee_of(e)
            if c and ("TryFrom" in c or "try_from_primitive" in c or "TryFromPrimitive" in c):
                bad.append((f["path"], c))
    rp.check(not bad, "OPEN-TYPE", "no-fallible-conversion", "src/", "a parser converts a wire value through TryFrom/TryFromPrimitive", found=bad[:3], why_ok="no TryFrom on the wire path in %d parser bodies" % len(all_parser_fns(F)))
    rp.floor("fields_resolved", n, len(FIELDS))
    rp.assume("nom number parsers accept every value of their width; newtype wrapping is value-preserving")
    return rp.finish(level="other", explanation="For each of the %d enumerated code-point fields the property lists: locate, in the canonical grammar extracted from the parser, the wire integer that reaches the field, "
                     "require it to be a bare integer of full width that no condition of the parser mentions, and require the field type to be an open newtype." % (len(FIELDS) + len(RAW_LISTS)))
