"""C05 - extensions."""
import hashlib
from ..gcommon import *
from ..aeval import AEval, Unknown, ANY

EXT = "tls_extensions::TlsExtension::"
ETY = "tls_extensions::TlsExtensionType::"


def run(tier, repo):
    rp = Report("C05", tier)
    F = load(repo)
    rp.configs.append("default")
    res = grammar_rules(rp, F, "C05")
    rp.rule("GREASE-SET", "the predicate guarding the Grease result, tabulated by the checker over all 65536 types, is true exactly on the 16 RFC 8701 values")
    rp.rule("EXT-TABLES", "for every dispatcher arm: IANA type k -> content grammar -> variant V, and From<&TlsExtension>[V] evaluates to a constant of value k; Grease -> the Grease tag; Unknown(x, _) -> x")
    rp.rule("EXT-SIBLINGS", "for every type present in several dispatch tables the arm grammars are identical")
    rp.rule("TAG-PARSERS", "each single-purpose parser: tag bytes = IANA type of the variant its content grammar builds")
    rp.rule("LIST", "list parsers are many0(complete(extension)) with an element that always consumes")
    grease_ref = bytes(1 if x in G.GREASE else 0 for x in range(65536))
    ref_hash = hashlib.sha1(grease_ref).hexdigest()[:12]
    tables = {}
    for name, types in (("parse_tls_extension", G.GENERIC_TYPES), ("parse_tls_client_hello_extension", G.CLIENT_TYPES), ("parse_tls_server_hello_extension", G.SERVER_TYPES)):
        p = "tls_extensions::" + name
        r = res.get(p)
        f = F.fn(p)
        if not (r and "code" in r and f):
            continue
        s = site(f)
        st = r["code"]["steps"]
        frame = len(st) >= 4 and st[0][0] == "u" and st[0][2] == 16 and st[1][0] == "u" and st[1][2] == 16 and st[2][0] == "bytes" and st[2][2] == ["v", st[1][1]]
        rp.check(frame, "EXT-FRAME", name, s, "extension framing is not [u16 type, u16 length, take(length)]", found=[x[:3] for x in st[:3]])
        ite = st[3] if len(st) > 3 and st[3][0] == "ite" else None
        if rp.check(ite is not None, "GREASE-SET", name + "/test-present", s, "GREASE test before dispatch not found"):
            c = ite[2]
            ok = c[0] == "tt" and c[1] == st[0][1] and c[3] == 16 and c[4] == ref_hash
            rp.check(ok, "GREASE-SET", name, s, "GREASE predicate accepts %s types; expected exactly the 16 values 0x0A0A,0x1A1A,...,0xFAFA" % (c[3] if c[0] == "tt" else "?"),
                     expected="16 values, hash " + ref_hash, found=c, why_ok="true on exactly 16 of 65536 types (0x?A?A with equal bytes)")
            thenv = ite[3]["ret"]
            rp.check(thenv[0] == "ok" and thenv[1][0] == "ctor" and thenv[1][1] == EXT + "Grease" and thenv[1][2] == [["v", st[0][1]], ["v", st[2][1]]], "GREASE-SET", name + "/value", s,
                     "GREASE result is not Grease(type, data)", found=thenv)
            els = ite[4]["steps"]
            sub = els[0] if els and els[0][0] == "sub" else None
            if rp.check(sub is not None and sub[2] == ["v", st[2][1]], "EXT-FRAME", name + "/region", s, "content parsers are not confined to the extension data"):
                sw = sub[3]["steps"][0] if sub[3]["steps"] and sub[3]["steps"][0][0] == "switch" else None
                if rp.check(sw is not None and sw[2] == ["v", st[0][1]], "EXT-TABLES", name + "/switch", s, "dispatch on the extension type not found"):
                    arms = {c_: sq for c_, sq in sw[3]}
                    tables[name] = arms
                    rp.check(sorted(arms) == sorted(types), "EXT-TABLES", name + "/types", s, "dispatched extension types differ from the reference table", expected=sorted(types), found=sorted(arms))
                    d = sw[4]["ret"]
                    okd = d[0] == "ok" and d[1][0] == "ctor" and d[1][1] == EXT + "Unknown" and d[1][2][1] == ["v", st[2][1]] and d[1][2][0] == ["ctor", "tls_extensions::TlsExtensionType", [["v", st[0][1]]]]
                    rp.check(okd and not sw[4]["steps"], "EXT-TABLES", name + "/unknown-fallback", s, "unknown types are not returned as Unknown(type, data)", found=d)
                    for k, sq in arms.items():
                        want = G.EXT_CONTENT.get(k)
                        v = variant_built(sq)
                        rp.check(want is not None and v == EXT + want[1], "EXT-TABLES", "%s/type-%d" % (name, k), s,
                                 "extension type %d is decoded as %s, expected %s" % (k, v, want[1] if want else "no such known type"), expected=want[1] if want else None, found=v)
    # siblings
    from .c03 import shape
    names = list(tables)
    all_types = sorted(set(k for t in tables.values() for k in t))
    for k in all_types:
        shapes = {n: shape(tables[n][k]) for n in names if k in tables[n]}
        if len(shapes) > 1:
            rp.check(len(set(shapes.values())) == 1, "EXT-SIBLINGS", "type-%d" % k, "src/tls_extensions.rs", "dispatchers disagree on extension type %d" % k, found=list(shapes))
    # From<&TlsExtension> mapping
    frm = [f for f in F.hir_fns() if f.get("impl_trait_path") == "core::convert::From" and f.get("impl_self") == "tls_extensions::TlsExtensionType" and "TlsExtension<" in f.get("impl_trait", "")]
    if rp.check(len(frm) == 1, "EXT-TABLES", "From-impl", "src/tls_extensions.rs", "From<&TlsExtension> for TlsExtensionType not found"):
        ff = frm[0]
        adt = F.adts["tls_extensions::TlsExtension"]
        type_of_variant = {v_[1]: k for k, v_ in G.EXT_CONTENT.items()}
        for var in adt["variants"]:
            vn = var["name"]
            ev = AEval(F)
            n = len(var["fields"])
            if vn == "Unknown":
                payload = [("newtype", "tls_extensions::TlsExtensionType", ("int", 0x1234)), ANY]
            else:
                payload = [ANY] * n
            if var["ctor"] == "None" and n:  # struct-like variant
                val = ("enum", EXT + vn, None)
            else:
                val = ("enum", EXT + vn, payload if n else [])
            try:
                r = ev.call_fn(ff["path"], [val])
            except Unknown as u:
                rp.fail("EXT-TABLES", "From/%s/undetermined" % vn, site(ff), "tag of variant %s depends on its content: %s" % (vn, u))
                continue
            got = r[2][1] if r[0] == "newtype" and r[2][0] == "int" else (r[1] if r[0] == "int" else None)
            want = 0xfafa if vn == "Grease" else 0x1234 if vn == "Unknown" else type_of_variant.get(vn)
            rp.check(got == want, "EXT-TABLES", "From/%s" % vn, site(ff), "tag derived from variant %s is %s, wire type is %s" % (vn, got, want), expected=want, found=got)
        rp.floor("From_variants", len(adt["variants"]), 28)
    # constants of the registry used by the mapping are checked by C17; here: tag parsers
    for path, specfn, props in TABLE:
        if "C05" in props and path.startswith("tls_extensions::parse_tls_extension_") and res.get(path, {}).get("code"):
            st = res[path]["code"]["steps"]
            if st and st[0][0] == "tag":
                v = None
                def find(x, p, acc=[]):
                    pass
                built = variant_built(res[path]["code"])
                ty = (st[0][1][0] << 8 | st[0][1][1]) if len(st[0][1]) == 2 else None
                want = G.EXT_CONTENT.get(ty, (None, None))[1]
                rp.check(want is not None and built == EXT + want, "TAG-PARSERS", path.split("::")[-1], site(F.fn(path)),
                         "parser accepts wire type %s but decodes %s" % (ty, built), expected=want, found=built, why_ok="tag %s <-> %s" % (ty, want))
    for name in ("parse_tls_extensions", "parse_tls_client_hello_extensions", "parse_tls_server_hello_extensions"):
        r = res.get("tls_extensions::" + name)
        if r and "code" in r:
            st = r["code"]["steps"]
            ok = len(st) == 1 and st[0][0] == "many0" and st[0][2]["steps"] and st[0][2]["steps"][0][0] == "complete"
            rp.check(ok, "LIST", name, site(F.fn("tls_extensions::" + name)), "list parser is not many0(complete(extension))", found=[x[0] for x in st])
            repetition_progress(rp, r["code"], name, "src/tls_extensions.rs")
    rp.floor("grammar_functions", len(res), 35)
    rp.floor("dispatch_tables", len(tables), 3)
    rp.assume("nom 7.1.3 combinator semantics; the From mapping is evaluated abstractly (analysis/aeval.py), not executed")
    return rp.finish(level="other", explanation="Static grammar extraction of the 3 dispatchers, 3 list parsers, 16 tag parsers and the exported content parsers vs grammars written from the RFCs; "
                     "GREASE predicate tabulated over all 65536 types by the checker; variant->type mapping evaluated abstractly for every variant and cross-checked with the dispatch tables.")


def variant_built(seq):
    """the TlsExtension variant a content grammar returns (first ctor/unit/struct of TlsExtension found in any ok-return)"""
    found = []

    def scan(x):
        if isinstance(x, list):
            if x and x[0] in ("ctor", "unit", "struct") and isinstance(x[1], str) and x[1].startswith(EXT):
                found.append(x[1])
                return
            for y in x:
                scan(y)

    def rets(sq):
        if sq["ret"] and sq["ret"][0] in ("ok", "okwhole"):
            scan(sq["ret"][1])
        for st in sq["steps"]:
            for y in st:
                if isinstance(y, dict):
                    rets(y)
                elif isinstance(y, list):
                    for z in y:
                        if isinstance(z, dict):
                            rets(z)
                        elif isinstance(z, list) and len(z) == 2 and isinstance(z[1], dict):
                            rets(z[1])
    rets(seq)
    vs = set(found)
    return found[0] if len(vs) == 1 else (sorted(vs) if vs else None)
