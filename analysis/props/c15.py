"""C15 - hello accessors and constructors reflect the parsed fields."""
import json
from ..core import Facts, Report, site, strip
from ..extract import extract
from ..pir import Ev, P, N, ctor, fld, sym_str, find_opaque

TH = "tls_handshake::"
RANDOM_CALL = "tls_handshake::ClientHello::random"
TRAIT_FIELDS = ["version", "random", "session_id", "ciphers", "comp", "ext"]
CH_NEW = {"version": ctor(TH + "TlsVersion", P("a0")), "random": P("a1"), "session_id": P("a2"), "ciphers": P("a3"), "comp": P("a4"), "ext": P("a5")}
SH_NEW = {"version": ctor(TH + "TlsVersion", P("a0")), "random": P("a1"), "session_id": P("a2"), "cipher": ctor(TH + "TlsCipherSuiteID", P("a3")),
          "compression": ctor(TH + "TlsCompressionID", P("a4")), "ext": P("a5")}


def body_sym(F, f):
    ev = Ev(F)
    env = {}
    for i, p in enumerate(f["params"]):
        ev.bind_pat(p, P("self") if i == 0 and p.get("name") == "self" else P("a%d" % (i if f["params"][0].get("name") != "self" else i - 1)), env)
    return ev.sym(f["hir"], env, {})


def occurrences(s, pred, acc=None, inside=None):
    """all subtrees satisfying pred"""
    acc = [] if acc is None else acc
    if isinstance(s, list):
        if pred(s):
            acc.append(s)
        for x in s:
            occurrences(x, pred, acc)
    return acc


def is_random_call(s):
    return isinstance(s, list) and len(s) == 3 and s[0] == "mcall" and s[1] in (RANDOM_CALL,) and s[2] == [P("self")] or (isinstance(s, list) and s[:2] == ["fld", P("self")] and s[2:] == ["random"])


def prefix4(s):
    """a 4-byte prefix of x: get(x, ..4) / x[..4] / first_chunk::<4>(x) / split_at(x,4).0"""
    if not isinstance(s, list) or not s:
        return None
    if s[0] == "mcall" and s[1] == "core::slice::<impl [T]>::get" and len(s[2]) == 2 and s[2][1][:2] == ["struct", "core::ops::range::RangeTo"] and s[2][1][2] == [["end", N(4)]]:
        return s[2][0]
    if s[0] == "slice_to" and s[2] == N(4):
        return s[1]
    if s[0] == "mcall" and s[1].endswith("first_chunk") and len(s[2]) == 1:
        return s[2][0]
    if s[0] == "fld" and s[2] == "0" and s[1][0] == "mcall" and s[1][1].endswith("split_at") and s[1][2][1] == N(4):
        return s[1][2][0]
    if s[0] == "slice" and s[2] == N(0) and s[3] == N(4):
        return s[1]
    return None


def suffix4(s):
    if not isinstance(s, list) or not s:
        return None
    if s[0] == "mcall" and s[1] == "core::slice::<impl [T]>::get" and len(s[2]) == 2 and s[2][1][:2] == ["struct", "core::ops::range::RangeFrom"] and s[2][1][2] == [["start", N(4)]]:
        return s[2][0]
    if s[0] == "slice_from" and s[2] == N(4):
        return s[1]
    if s[0] == "fld" and s[2] == "1" and s[1][0] == "mcall" and s[1][1].endswith("split_at") and s[1][2][1] == N(4):
        return s[1][2][0]
    return None


def show(v):
    """abstract value, compact"""
    if v[0] == "array":
        xs = [show(x) for x in v[1]]
        return "[%s]" % (", ".join(xs) if len(xs) <= 6 else ", ".join(xs[:3]) + ", .. " + xs[-1])
    if v[0] == "sym":
        return v[1]
    if v[0] == "be":
        return "be(%s)" % ", ".join(show(x) for x in v[1])
    if v[0] == "int":
        return str(v[1])
    return str(v)[:80]


def count_nodes(s, node):
    return len(occurrences(s, lambda x: x == node))


def run(tier, repo):
    rp = Report("C15", tier)
    facts, info = extract(repo, "default", want_mir=False)
    F = Facts(facts, info)
    rp.configs.append("default")
    rp.rule("ACCESSOR-IDENTITY", "each ClientHello accessor of both impls returns the same-named field of self")
    rp.rule("RAND-TIME", "rand_time, evaluated abstractly on a symbolic random r of each length in {0..5, 8, 28, 31, 32, 33, 64}: big-endian combination of r0..r3 when len >= 4, else 0")
    rp.rule("RAND-BYTES", "rand_bytes, evaluated the same way: r[4..] when len >= 4, else the empty slice")
    rp.rule("CIPHER-MAP", "cipher_suites/get_ciphers map each advertised id, in order, through the registry lookup; get_cipher looks up self.cipher")
    rp.rule("CTOR-STORE", "new() stores every argument unchanged in its field (version/cipher/compression wrapped in their newtypes)")
    rp.rule("GETTERS", "get_version returns self.version")
    # accessors
    n_acc = 0
    for slf in ("tls_handshake::TlsClientHelloContents<'a>", "dtls::DTLSClientHello<'a>"):
        for m in TRAIT_FIELDS:
            fs = [f for f in F.hir_fns() if f.get("impl_self") == slf and f.get("impl_trait_path") == "tls_handshake::ClientHello" and f.get("name") == m]
            key = "%s::%s" % (slf.split("::")[-1].split("<")[0], m)
            if not rp.check(len(fs) == 1, "ACCESSOR-IDENTITY", key + "/present", slf, "accessor %s not found" % key):
                continue
            s = body_sym(F, fs[0])
            n_acc += 1
            rp.check(s == fld(P("self"), m), "ACCESSOR-IDENTITY", key, site(fs[0]), "accessor %s() does not return self.%s" % (m, m), expected="self." + m, found=sym_str(s), why_ok="returns self." + m)
    rp.floor("accessors", n_acc, 12)
    # trait default methods: evaluated by the checker's abstract evaluator on a symbolic random of each length
    # (bytes r0, r1, ... are opaque atoms), for every way the body may be written that the evaluator can read
    from ..aeval import AEval, Unknown
    LENGTHS = [0, 1, 2, 3, 4, 5, 8, 28, 31, 32, 33, 64]
    def run_on(fn_path, n):
        rnd = ("array", [("sym", "r%d" % i) for i in range(n)])
        return AEval(F).call_fn(fn_path, [("obj", {"random": rnd})]), rnd
    f = F.fn("tls_handshake::ClientHello::rand_time")
    if rp.check(f is not None, "RAND-TIME", "present", "src/tls_handshake.rs", "ClientHello::rand_time not found"):
        for n in LENGTHS:
            try:
                got, rnd = run_on(f["path"], n)
            except Unknown as u:
                rp.fail("RAND-TIME", "unreadable", site(f), "rand_time cannot be evaluated for a %d-byte random: %s" % (n, u))
                break
            want = ("be", rnd[1][:4]) if n >= 4 else ("int", 0)
            rp.check(got == want, "RAND-TIME", "len-%d" % n, site(f), "rand_time of a %d-byte random is %s; expected %s" % (n, show(got), show(want)), expected=show(want), found=show(got),
                     why_ok="= " + show(want))
    f = F.fn("tls_handshake::ClientHello::rand_bytes")
    if rp.check(f is not None, "RAND-BYTES", "present", "src/tls_handshake.rs", "ClientHello::rand_bytes not found"):
        for n in LENGTHS:
            try:
                got, rnd = run_on(f["path"], n)
            except Unknown as u:
                rp.fail("RAND-BYTES", "unreadable", site(f), "rand_bytes cannot be evaluated for a %d-byte random: %s" % (n, u))
                break
            want = ("array", rnd[1][4:]) if n >= 4 else ("array", [])
            rp.check(got == want, "RAND-BYTES", "len-%d" % n, site(f), "rand_bytes of a %d-byte random is %s; expected %s" % (n, show(got), show(want)), expected=show(want), found=show(got),
                     why_ok="= " + show(want))
    # cipher maps
    def is_lookup(s, idsym):
        """registry lookup of the id `idsym` (a TlsCipherSuiteID value), at any inlining depth"""
        raw = ["fld", idsym, "0"]
        return s in (["mcall", "phf::map::Map::<K, V>::get", [["unit", "tls_ciphers::CIPHERS"], raw]],
                     ["call", "tls_ciphers::TlsCipherSuite::from_id", [raw]],
                     ["mcall", "tls_handshake::TlsCipherSuiteID::get_ciphersuite", [idsym]])

    def is_lookup_map(s, src):
        return s[0] == "map_each" and s[1] == src and s[2][0] == "lam" and s[2][1] == 1 and is_lookup(s[2][2], ["lp", 0])
    f = F.fn("tls_handshake::ClientHello::cipher_suites")
    if rp.check(f is not None, "CIPHER-MAP", "cipher_suites/present", "src/tls_handshake.rs", "cipher_suites not found"):
        s = body_sym(F, f)
        rp.check(is_lookup_map(s, ["mcall", "tls_handshake::ClientHello::ciphers", [P("self")]]), "CIPHER-MAP", "cipher_suites", site(f), "cipher_suites is not ciphers().iter().map(lookup).collect()", found=sym_str(s)[:300],
                 why_ok="order- and length-preserving map of the registry lookup")
    f = F.fn("tls_handshake::TlsClientHelloContents::<'a>::get_ciphers")
    if rp.check(f is not None, "CIPHER-MAP", "get_ciphers/present", "src/tls_handshake.rs", "get_ciphers not found"):
        s = body_sym(F, f)
        # through the field, or through the accessor ciphers() (ACCESSOR-IDENTITY establishes that it returns the field)
        rp.check(is_lookup_map(s, fld(P("self"), "ciphers")) or is_lookup_map(s, ["mcall", "tls_handshake::ClientHello::ciphers", [P("self")]]), "CIPHER-MAP", "get_ciphers", site(f),
                 "get_ciphers is not self.ciphers.iter().map(lookup).collect()", found=sym_str(s)[:300])
    f = F.fn("tls_handshake::TlsServerHelloContents::<'a>::get_cipher")
    if rp.check(f is not None, "CIPHER-MAP", "get_cipher/present", "src/tls_handshake.rs", "get_cipher not found"):
        s = body_sym(F, f)
        rp.check(is_lookup(s, fld(P("self"), "cipher")), "CIPHER-MAP", "get_cipher", site(f), "get_cipher is not the registry lookup of self.cipher", found=sym_str(s)[:300])
    # the registry the lookups go through must be the IANA table (an id dropped from the generated map would map to None)
    from .c12 import table_rules
    rp.rule("REGISTRY", "the map the lookups consult (static CIPHERS) has exactly the rows of scripts/tls-ciphersuites.txt")
    table_rules(rp, F, repo, rule="REGISTRY")
    # constructors
    for path, table, ty in ((TH + "TlsClientHelloContents::<'a>::new", CH_NEW, TH + "TlsClientHelloContents"), (TH + "TlsServerHelloContents::<'a>::new", SH_NEW, TH + "TlsServerHelloContents")):
        f = F.fn(path)
        if not rp.check(f is not None, "CTOR-STORE", path.split("::")[-3] + "/present", "src/tls_handshake.rs", "%s not found" % path):
            continue
        s = body_sym(F, f)
        got = dict((k, v) for k, v in s[2]) if s[0] == "struct" and s[1] == ty else None
        for fld_, want in table.items():
            rp.check(got is not None and got.get(fld_) == want, "CTOR-STORE", "%s.%s" % (ty.split("::")[-1], fld_), site(f), "new() does not store its argument unchanged in field %s" % fld_, expected=sym_str(want),
                     found=sym_str(got.get(fld_)) if got and got.get(fld_) else None, why_ok=sym_str(want))
    for slf in ("TlsClientHelloContents", "TlsServerHelloContents"):
        f = F.fn(TH + slf + "::<'a>::get_version")
        if rp.check(f is not None, "GETTERS", slf + "::get_version/present", "src/tls_handshake.rs", "get_version not found"):
            s = body_sym(F, f)
            rp.check(s == fld(P("self"), "version"), "GETTERS", slf + "::get_version", site(f), "get_version does not return self.version", found=sym_str(s))
    rp.assume("core: slice::get(..4)/get(4..) are the checked prefix/suffix, u32::from_be_bytes combines big-endian, Iterator::map/collect preserve order and length")
    return rp.finish(level="other", explanation="Shape/dataflow rules on ~25 small bodies read from the HIR: accessor identity for both ClientHello impls, rand_time/rand_bytes prefix/suffix rules, registry-lookup maps, constructor field table.")
