"""C08 - handshake state machine: exhaustive decision-table extraction vs spec/states.py."""
import importlib.util, os
from ..core import Facts, Report, site, VERIF
from ..extract import extract
from ..aeval import AEval, Unknown, ANY

TS = "tls_states::TlsState::"
MH = "tls_handshake::TlsMessageHandshake::"
TM = "tls_message::TlsMessage::"


def load_spec(name):
    spec = importlib.util.spec_from_file_location(name, os.path.join(VERIF, "spec", name + ".py"))
    m = importlib.util.module_from_spec(spec)
    spec.loader.exec_module(m)
    return m


def abstract_msg(kind, facts):
    """abstract TlsMessage for a message kind; payloads are arbitrary except the two the property names."""
    if kind.startswith("hs:"):
        h = kind[3:]
        if h.startswith("ClientHello"):
            sid = ("enum", "core::option::Option::Some", [ANY]) if h.endswith("+sid") else ("enum", "core::option::Option::None", [])
            inner = ("enum", MH + "ClientHello", [("rec", {"session_id": sid})])
        else:
            adt = facts.adts["tls_handshake::TlsMessageHandshake"]
            var = [v for v in adt["variants"] if v["name"] == h][0]
            inner = ("enum", MH + h, [ANY] * len(var["fields"]))
        return ("enum", TM + "Handshake", [inner])
    if kind == "ccs":
        return ("enum", TM + "ChangeCipherSpec", [])
    if kind.startswith("alert:"):
        sev = ("newtype", "tls_alert::TlsAlertSeverity", ("int", 1) if kind.endswith("warning") else ("intnot", frozenset([1])))
        return ("enum", TM + "Alert", [("rec", {"severity": sev})])
    if kind == "appdata":
        return ("enum", TM + "ApplicationData", [ANY])
    if kind == "heartbeat":
        return ("enum", TM + "Heartbeat", [ANY])
    raise ValueError(kind)


def run(tier, repo):
    rp = Report("C08", tier)
    spec = load_spec("states")
    facts, info = extract(repo, "default", want_mir=False)
    F = Facts(facts, info)
    rp.configs.append("default")
    rp.rule("TABLE", "every cell (state, message kind, direction) of tls_state_transition, evaluated abstractly on the extracted HIR, equals spec/states.py")
    rp.rule("CONTENT-INDEPENDENT", "abstract evaluation with arbitrary payloads must be determinate: the code may inspect only the variant, ClientHello.session_id's variant and Alert.severity")
    rp.rule("DOMAIN", "the enums TlsState / TlsMessage / TlsMessageHandshake have exactly the variants the reference table enumerates")

    f = F.fn("tls_states::tls_state_transition")
    if not rp.check(f is not None and f.get("exported"), "ANCHOR", "tls_state_transition", "src/tls_states.rs", "exported fn tls_state_transition not found"):
        return rp.finish(explanation="anchor missing")
    rp.functions.update(["tls_states::tls_state_transition", "tls_states::tls_state_transition_handshake"])
    # domain checks
    st = F.adts.get("tls_states::TlsState")
    code_states = [v["name"] for v in st["variants"]] if st else []
    rp.check(sorted(code_states) == sorted(spec.STATES), "DOMAIN", "TlsState", site(st or {}), "state set differs from the reference",
             expected=sorted(spec.STATES), found=sorted(code_states))
    hs = F.adts.get("tls_handshake::TlsMessageHandshake")
    code_hs = [v["name"] for v in hs["variants"]] if hs else []
    rp.check(sorted(code_hs) == sorted(spec.HANDSHAKE_VARIANTS), "DOMAIN", "TlsMessageHandshake", site(hs or {}),
             "handshake variant set differs from the reference", expected=sorted(spec.HANDSHAKE_VARIANTS), found=sorted(code_hs))
    tm = F.adts.get("tls_message::TlsMessage")
    code_tm = sorted(v["name"] for v in tm["variants"]) if tm else []
    rp.check(code_tm == sorted(["Handshake", "ChangeCipherSpec", "Alert", "ApplicationData", "Heartbeat"]), "DOMAIN", "TlsMessage", site(tm or {}),
             "message variant set differs", found=code_tm)
    sev = F.const_val("tls_alert::TlsAlertSeverity::Warning")
    rp.check(sev == 1, "DOMAIN", "TlsAlertSeverity::Warning", "src/tls_alert.rs", "Warning constant is not 1", expected=1, found=sev)

    cells = 0
    fields_seen = set()
    for s in code_states:
        for kind in spec.kinds():
            for d in (True, False):
                cells += 1
                ev = AEval(F)
                key = "%s/%s/%s" % (s, kind, "to_server" if d else "to_client")
                try:
                    r = ev.call_fn("tls_states::tls_state_transition", [("enum", TS + s, []), abstract_msg(kind, F), ("bool", d)])
                except Unknown as u:
                    rp.fail("CONTENT-INDEPENDENT", key, site(f), "outcome is not determined by state, direction and message kind: %s" % u)
                    continue
                fields_seen.update(x[1] for x in ev.trace if x[0] == "field")
                got = None
                if r[0] == "enum" and r[1] == "core::result::Result::Ok" and r[2] and r[2][0][0] == "enum" and r[2][0][1].startswith(TS):
                    got = ("Ok", r[2][0][1][len(TS):])
                elif r[0] == "enum" and r[1] == "core::result::Result::Err" and r[2] and r[2][0][0] == "enum":
                    got = ("Err", r[2][0][1].split("::")[-1])
                exp = spec.expected(s, kind, d) if s in spec.STATES else None
                rp.check(got == exp, "TABLE", key, site(f), "transition differs from the reference relation", expected=exp, found=got or r)
    extra = fields_seen - {"session_id", "severity"}
    rp.check(not extra, "CONTENT-INDEPENDENT", "fields-read", site(f), "message fields other than session_id / severity are read", found=sorted(extra),
             why_ok="fields read under msg: %s" % sorted(fields_seen))
    rp.floor("cells", cells, 1150)
    rp.assume("rustc HIR construction and name resolution; pattern-matching semantics as modelled by analysis/aeval.py (first matching arm wins)")
    rp.assume("all 256x256 alerts are covered by the split severity==Warning / severity!=Warning because the evaluator refuses (reports) any other inspection of the payload")
    return rp.finish(level="other", exhaustive=True,
                     explanation="Static decision-table extraction: both match expressions of src/tls_states.rs are evaluated abstractly (no repo code is run) "
                                 "for all %d cells of states x 23 message kinds x 2 directions with arbitrary payloads, and every cell is compared with the hand-written reference relation. "
                                 "Since the function is a pure function of one cell, cell-wise equality decides the property for all finite message sequences." % cells,
                     extra_cov={"states": len(code_states), "cells": cells})
