"""C03 - a record's payload decodes to exactly its messages, in order."""
from ..gcommon import *
from ..pir import subst, P


def run(tier, repo):
    rp = Report("C03", tier)
    F = load(repo)
    rp.configs.append("default")
    res = grammar_rules(rp, F, "C03")
    rp.rule("CT-DISPATCH", "parse_tls_record_with_header dispatches 0x14/0x15/0x16/0x17/0x18 to CCS/alert/handshake/application-data/heartbeat and rejects every other content type")
    rp.rule("REP-SHAPE", "CCS, alert and handshake payloads are many1(complete(message)); application data is exactly one whole-payload blob; heartbeat is one message")
    rp.rule("REP-PROGRESS", "no repetition over a parser that cannot fail or may succeed without consuming")
    rp.rule("ONE-STEP=TWO-STEP", "the payload grammar inside parse_tls_plaintext equals parse_tls_record_with_header applied to the same header")
    r = res.get("tls_record::parse_tls_record_with_header")
    f = F.fn("tls_record::parse_tls_record_with_header")
    if r and "code" in r and f:
        s = site(f)
        sw = [st for st in r["code"]["steps"] if st[0] == "switch"]
        if rp.check(len(sw) == 1, "CT-DISPATCH", "switch", s, "content-type dispatch not found"):
            arms = {c: sq for c, sq in sw[0][3]}
            rp.check(sorted(arms) == [0x14, 0x15, 0x16, 0x17, 0x18], "CT-DISPATCH", "content-types", s, "dispatched content types differ", expected=[20, 21, 22, 23, 24], found=sorted(arms))
            d = sw[0][4]
            rp.check(not d["steps"] and d["ret"][0] == "err", "CT-DISPATCH", "default", s, "unknown content types are not rejected", found=d["ret"])
            for ct in (0x14, 0x15, 0x16):
                a = arms.get(ct)
                okshape = a is not None and len(a["steps"]) == 1 and a["steps"][0][0] == "many1" and len(a["steps"][0][2]["steps"]) == 1 and a["steps"][0][2]["steps"][0][0] == "complete"
                rp.check(okshape, "REP-SHAPE", "type-%#x" % ct, s, "payload of content type %#x is not many1(complete(message))" % ct, found=(a["steps"][0][0] if a and a["steps"] else None))
            a = arms.get(0x17)
            okapp = a is not None and len(a["steps"]) == 1 and a["steps"][0][0] == "bytes" and a["steps"][0][2] == ["remaining"] and a["ret"][0] == "ok" and a["ret"][1][0] == "vec" and len(a["ret"][1][1]) == 1
            rp.check(okapp, "REP-SHAPE", "type-0x17", s, "application data is not decoded as exactly one whole-payload message", found=(a["steps"] if a else None))
            a = arms.get(0x18)
            rp.check(a is not None and len(a["steps"]) == 1 and a["steps"][0][0] == "complete", "REP-SHAPE", "type-0x18", s, "heartbeat arm is not one complete() message", found=(a["steps"][0][0] if a and a["steps"] else None))
        repetition_progress(rp, r["code"], "record_with_header", s)
    # an Err::Failure anywhere inside a message grammar aborts many1 instead of ending the list at the malformed message
    rp.rule("NO-FAILURE", "no parser reachable from the record payload constructs Err::Failure or uses cut(): decoding stops at the first malformed message and returns the messages before it")
    rr = res.get("tls_record::parse_tls_record_with_header")
    if rr and "full_code" in rr:
        import json as _json
        txt = _json.dumps(rr["full_code"])
        has = '"Failure"' in txt or '["cut"' in txt
        rp.check(not has, "NO-FAILURE", "record-payload", site(f) if f else "src/tls_record.rs", "a message parser can return Err::Failure, which makes many1 fail the whole record after earlier messages were decoded",
                 why_ok="no Err::Failure / cut in the payload grammar")
    # one-step = two-step
    r1 = res.get("tls_record::parse_tls_plaintext")
    if r and r1 and "code" in r and "code" in r1:
        f1 = F.fn("tls_record::parse_tls_plaintext")
        subs = [st for st in r1["code"]["steps"] if st[0] == "sub"]
        ok = False
        why = "payload region not found"
        if len(subs) == 1:
            hdr = r1["code"]["ret"][1]
            hdrv = None
            if hdr[0] == "struct":
                for k, v in hdr[2]:
                    if k == "hdr":
                        hdrv = v
            # re-evaluate the two-step function with the header value substituted for its parameter
            from ..grammar_check import code_seq
            try:
                # name the header's wire integers by placeholders on both sides (binder numbering differs between the two evaluations)
                import json as _j
                raw1 = Ev(F).fn_seq("tls_record::parse_tls_plaintext")  # without truth-table forms
                rsubs = [st for st in raw1["steps"] if st[0] == "sub"]
                hdrv = [v for k, v in raw1["ret"][1][2] if k == "hdr"][0]
                hb = sorted(set(_find_binders(hdrv)))
                one = rsubs[0][3]
                for i, bname in enumerate(hb):
                    hdrv = subst(hdrv, ["v", bname], ["p", "hdr%d" % i])
                    one = _subst_seq(one, ["v", bname], ["p", "hdr%d" % i])
                two = Ev(F).fn_seq("tls_record::parse_tls_record_with_header", (), [hdrv])
                ok = shape(two) == shape(one)
                why = "shapes differ"
            except Exception as ex:
                why = str(ex)
        rp.check(ok, "ONE-STEP=TWO-STEP", "plaintext", site(f1), "payload grammar of parse_tls_plaintext differs from parse_tls_record_with_header with the same header: " + why,
                 why_ok="identical canonical payload grammar (binders renamed)")
    rp.floor("grammar_functions", len(res), 7)
    rp.assume("nom 7.1.3 many1/complete/map_parser semantics: many1 returns elements in input order, stops at the first Err::Error after at least one element, propagates Failure/Incomplete")
    return rp.finish(level="other", explanation="Static grammar extraction vs the record-content grammar written from RFC 5246 sec. 6/7 and RFC 6520: dispatch table, repetition shape, progress of repeated parsers, "
                     "message grammars, and equality of the one-step and two-step payload grammars.")


def shape(seq):
    """canonical seq with binder names replaced by first-occurrence indices"""
    import json
    names = {}

    def ren(x):
        if isinstance(x, dict):
            return {"steps": [ren(s) for s in x["steps"]], "ret": ren(x["ret"])}
        if isinstance(x, list):
            return [ren(y) for y in x]
        if isinstance(x, str) and len(x) > 1 and x[0] == "b" and x[1:].isdigit():
            return names.setdefault(x, "B%d" % len(names))
        return x
    return json.dumps(ren(seq), sort_keys=True)


def _find_binders(x):
    if isinstance(x, list):
        if len(x) == 2 and x[0] == "v" and isinstance(x[1], str):
            yield x[1]
        else:
            for y in x:
                yield from _find_binders(y)


def _subst_seq(x, old, new):
    if isinstance(x, dict):
        return {"steps": [_subst_seq(s, old, new) for s in x["steps"]], "ret": _subst_seq(x["ret"], old, new)}
    if x == old:
        return new
    if isinstance(x, list):
        return [_subst_seq(y, old, new) for y in x]
    return x
