"""C10 - DTLS records and handshake fragments."""
from ..gcommon import *
from .c02 import cap_rule


def run(tier, repo):
    rp = Report("C10", tier)
    F = load(repo)
    rp.configs.append("default")
    res = grammar_rules(rp, F, "C10")
    rp.rule("CAP-GUARD", "as C02, on the 13-byte DTLS header (length is the 5th header element)")
    rp.rule("NO-INCOMPLETE-INSIDE", "inside the record payload no parser can answer Incomplete")
    rp.rule("EPOCH-SEQ", "epoch = (x >> 48) as u16 and sequence_number = x & (2^48-1) of one big-endian u64 (checked by grammar equality and restated explicitly)")
    r = res.get("dtls::parse_dtls_plaintext_record")
    f = F.fn("dtls::parse_dtls_plaintext_record")
    if r and "code" in r and f:
        s = site(f)
        cap_rule(rp, "parse_dtls_plaintext_record", r["code"], s, len_index=3)
        subs = [st for st in r["code"]["steps"] if st[0] == "sub"]
        if rp.check(len(subs) == 1, "NO-INCOMPLETE-INSIDE", "region", s, "payload region not found"):
            sites = incomplete_sites(subs[0][3])
            rp.check(not sites, "NO-INCOMPLETE-INSIDE", "parse_dtls_plaintext_record/payload", s, "a parser inside the DTLS record payload can answer Incomplete: %s" % sites[:5], found=sites[:10])
        hdr = None
        if r["code"]["ret"][0] == "ok" and r["code"]["ret"][1][0] == "struct":
            for k, v in r["code"]["ret"][1][2]:
                if k == "header":
                    hdr = dict((a, b) for a, b in v[2]) if v[0] == "struct" else None
        x = r["code"]["steps"][2][1] if len(r["code"]["steps"]) > 2 and r["code"]["steps"][2][0] == "u" and r["code"]["steps"][2][2] == 64 else None
        # decided by value, not by shape: both expressions (over the one 64-bit wire integer x) are evaluated by the checker
        # on every single-bit value of x and on mixed patterns, and must select the high 16 / the low 48 bits
        ok = False
        if hdr is not None and x is not None and hdr.get("epoch") is not None and hdr.get("sequence_number") is not None:
            from ..grammar_check import ev_sym, free_vars
            fv = set()
            free_vars(hdr["epoch"], fv)
            free_vars(hdr["sequence_number"], fv)
            tests = [1 << k for k in range(64)] + [0, (1 << 64) - 1, 0x0123456789abcdef, 0xfedcba9876543210, 0xffff000000000000, 0x0000ffffffffffff, 0x8000000000000001, 0x00010000ffff0001]
            try:
                ok = fv == {x} and all(ev_sym(hdr["epoch"], {x: v}) == (v >> 48) and ev_sym(hdr["sequence_number"], {x: v}) == (v & ((1 << 48) - 1)) for v in tests)
            except Exception:
                ok = False
        rp.check(ok, "EPOCH-SEQ", "split", s, "epoch / sequence number are not the high 16 / low 48 bits of the 64-bit field", found={k: sym_str(v) for k, v in (hdr or {}).items() if k in ("epoch", "sequence_number")})
    r = res.get("dtls::parse_dtls_message_handshake")
    if r and "code" in r:
        repetition_progress(rp, r["code"], "dtls_handshake", "src/dtls.rs")
    for p in ("dtls::parse_dtls_plaintext_records", "dtls::parse_dtls_record_with_header"):
        if res.get(p) and "code" in res[p]:
            repetition_progress(rp, res[p]["code"], p.split("::")[-1], "src/dtls.rs")
    # is_fragment(): true exactly for Handshake messages whose body is the opaque Fragment
    from ..aeval import AEval, Unknown, ANY
    rp.rule("IS-FRAGMENT", "DTLSMessage::is_fragment evaluated abstractly for every message variant and every handshake body variant: true iff Handshake with body Fragment")
    fi = F.fn("dtls::DTLSMessage::<'a>::is_fragment")
    if rp.check(fi is not None, "IS-FRAGMENT", "present", "src/dtls.rs", "DTLSMessage::is_fragment not found"):
        msg = F.adts.get("dtls::DTLSMessage")
        body = F.adts.get("dtls::DTLSMessageHandshakeBody")
        ncell = 0
        for mv in (msg["variants"] if msg else []):
            if mv["name"] == "Handshake":
                for bv in body["variants"]:
                    val = ("enum", "dtls::DTLSMessage::Handshake", [("rec", {"body": ("enum", "dtls::DTLSMessageHandshakeBody::" + bv["name"], [ANY] * len(bv["fields"]))})])
                    want = bv["name"] == "Fragment"
                    try:
                        r = AEval(F).call_fn(fi["path"], [val])
                    except Unknown as u:
                        r = ("unknown", str(u))
                    ncell += 1
                    rp.check(r == ("bool", want), "IS-FRAGMENT", "Handshake/" + bv["name"], site(fi), "is_fragment() of a Handshake message with body %s is %s, expected %s" % (bv["name"], r, want), expected=want, found=r)
            else:
                val = ("enum", "dtls::DTLSMessage::" + mv["name"], [ANY] * len(mv["fields"]))
                try:
                    r = AEval(F).call_fn(fi["path"], [val])
                except Unknown as u:
                    r = ("unknown", str(u))
                ncell += 1
                rp.check(r == ("bool", False), "IS-FRAGMENT", mv["name"], site(fi), "is_fragment() of %s is %s, expected false" % (mv["name"], r), expected=False, found=r)
        rp.floor("is_fragment_cells", ncell, 20)
    rp.floor("grammar_functions", len(res), 7)
    rp.assume("nom 7.1.3 combinator semantics; nom-derive primitive impls")
    return rp.finish(level="other", explanation="Static grammar extraction of the DTLS record, handshake-header, fragment and body parsers compared with the RFC 6347 grammar (13-byte header with 16/48-bit split, 12-byte handshake header, fragment predicate offset>0 or fragment_length<length evaluated before type dispatch, bodies confined to fragment_length bytes).")
