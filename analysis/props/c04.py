"""C04 - handshake messages."""
from ..gcommon import *

HS_TYPES = [0, 1, 2, 4, 5, 6, 11, 12, 13, 14, 15, 16, 20, 22, 24, 67]


def run(tier, repo):
    rp = Report("C04", tier)
    F = load(repo)
    rp.configs.append("default")
    res = grammar_rules(rp, F, "C04")
    rp.rule("HS-DISPATCH", "parse_tls_message_handshake: u8 type, u24 length, take(length), then a dispatch over exactly the 16 supported type codes applied to the taken region only; unknown types rejected")
    rp.rule("HS-CONFINE", "every body parser runs on the take(length) region; the outer remainder is the take's remainder")
    rp.rule("HS-REJECT", "the structural rejections the property names are present: session id > 32, odd/overlong cipher list, overlong compression list, ticket < 4, unsupported ServerHello version")
    f = F.fn("tls_handshake::parse_tls_message_handshake")
    r = res.get("tls_handshake::parse_tls_message_handshake")
    if f and r and "code" in r:
        s = site(f)
        st = r["code"]["steps"]
        shape_ok = len(st) == 4 and st[0][0] == "u" and st[0][2] == 8 and st[1][0] == "u" and st[1][2] == 24 and st[2][0] == "bytes" and st[2][2] == ["v", st[1][1]] and st[3][0] == "sub" and st[3][2] == ["v", st[2][1]]
        if rp.check(shape_ok, "HS-CONFINE", "framing", s, "handshake framing is not [u8 type, u24 len, take(len), body on the taken region]", found=[x[0] for x in st]):
            inner = st[3][3]
            sw = inner["steps"][0] if inner["steps"] and inner["steps"][0][0] == "switch" else None
            if rp.check(sw is not None and sw[2] == ["v", st[0][1]], "HS-DISPATCH", "switch", s, "dispatch on the type byte not found"):
                got = sorted(c for c, _ in sw[3])
                rp.check(got == HS_TYPES, "HS-DISPATCH", "types", s, "set of dispatched handshake types differs", expected=HS_TYPES, found=got)
                rp.check(sw[4]["ret"][0] == "err", "HS-DISPATCH", "default", s, "unknown handshake types are not rejected")
    # explicit rejection guards, read from the canonical grammars
    def guards_of(path):
        rr = res.get(path)
        out = []
        if rr and "code" in rr:
            walk_steps(rr["code"], lambda st, p: out.append(st) if st[0] == "guard" else None)
        return out
    import hashlib
    def tt(pred, bits):
        t = bytes(1 if pred(x) else 0 for x in range(1 << bits))
        return [bits, sum(t), hashlib.sha1(t).hexdigest()[:12]]
    sid = tt(lambda x: x > 32, 8)
    for path in ("tls_handshake::parse_tls_handshake_client_hello", "tls_handshake::parse_tls_handshake_server_hello"):
        gs = guards_of(path)
        f2 = F.fn(path)
        n = len([g for g in gs if g[1][0] == "tt" and g[1][2:] == sid])
        need = 1 if path.endswith("client_hello") else 4
        rp.check(n >= need, "HS-REJECT", path.split("::")[-1] + "/session-id>32", site(f2) if f2 else path, "session-id length above 32 is not rejected on every path", expected=need, found=n,
                 why_ok="guard with truth table {33..255} present on %d path(s)" % n)
    gs = guards_of("tls_handshake::parse_tls_handshake_client_hello")
    txt = [sym_str(g[1]) for g in gs]
    odd = tt(lambda x: x % 2 == 1, 16)
    rp.check(any(g[1][0] == "tt" and g[1][2:] == odd for g in gs), "HS-REJECT", "cipher-list-odd", "src/tls_handshake.rs", "odd cipher-suite list length is not rejected", found=txt)
    rp.check(len([t for t in txt if t.startswith("(remaining <")]) >= 2, "HS-REJECT", "cipher-and-compression-list-overlong", "src/tls_handshake.rs", "overlong cipher / compression list is not rejected", found=txt)
    gs = guards_of("tls_handshake::parse_tls_handshake_msg_newsessionticket")
    rp.check(any(sym_str(g[1]) == "($arg1 < 4)" for g in gs), "HS-REJECT", "ticket<4", "src/tls_handshake.rs", "NewSessionTicket shorter than 4 bytes is not rejected before len-4", found=[sym_str(g[1]) for g in gs])
    rp.floor("grammar_functions", len(res), 21)
    rp.assume("nom 7.1.3 combinator semantics (take, length_data, length_count, map_parser, many0, complete, opt, cond, verify, alt, map)")
    return rp.finish(level="other", explanation="Static grammar extraction of parse_tls_message_handshake and all %d exported handshake body parsers, compared with grammars written from RFC 5246/8446/5077/6066; "
                     "explicit dispatch, confinement and rejection rules read from the canonical form." % len(res))
