"""C07 - record defragmenter equals accumulate-then-parse, with its safety limits (path summaries)."""
import importlib.util, os
from ..core import Facts, Report, site, VERIF
from ..extract import extract
from ..defrag_sem import SemExec, semantic, Unrec

P = "tls_records_parser::TlsRecordsParser::"


def load_spec():
    spec = importlib.util.spec_from_file_location("defrag", os.path.join(VERIF, "spec", "defrag.py"))
    m = importlib.util.module_from_spec(spec)
    spec.loader.exec_module(m)
    return m


def run(tier, repo):
    rp = Report("C07", tier)
    facts, info = extract(repo, "default", want_mir=False)
    F = Facts(facts, info)
    rp.configs.append("default")
    S = load_spec()
    rp.rule("PATH", "every entry->exit path of the four TlsRecordsParser methods (loop-free; evaluated by an abstract interpreter over a symbolic state and record, helpers and delegations inlined, the parser outcome "
                    "split into Ok / Incomplete / Error|Failure x Complete|other) has exactly the decisions, parser invocations, final state and exit class that spec/defrag.py lists, and every listed summary occurs")
    rp.rule("CONSTANTS", "MAX_RECORD_DATA = 10 MiB; the buffer and type fields are private and touched only by the four methods and their private helpers")
    total = 0
    for m, specfn in S.METHODS.items():
        f = F.fn(P + m)
        if not rp.check(f is not None, "PATH", m + "/present", "src/tls_records_parser.rs", "method %s not found" % m):
            continue
        rp.functions.add(P + m)
        try:
            raw = SemExec(F, f).run()
        except Unrec as u:
            rp.fail("PATH", m + "/unrecognised", site(f), "construct the path analysis cannot read: %s" % u)
            continue
        got = semantic(raw)
        want = set(specfn())
        total += len(got)
        by_guards = {}
        for w in want:
            by_guards[w[0]] = w
        for p in sorted(got, key=str):
            key = "%s/%s" % (m, "/".join(p[0]) or "-")
            if p in want:
                rp.ok("PATH", site(f), key, "parses %s; type -> %s; buffer -> %s; exit %s" % (list(p[1]), p[2], "+".join(p[3]) or "empty", p[4]))
            else:
                ref = by_guards.get(p[0])
                rp.fail("PATH", key, site(f), "path [%s]: parses %s, leaves type %s and buffer %s, exits %s" % (", ".join(p[0]), list(p[1]), p[2], "+".join(p[3]) or "empty", p[4]),
                        expected=("parses %s; type %s; buffer %s; exit %s" % (list(ref[1]), ref[2], "+".join(ref[3]) or "empty", ref[4])) if ref else "no such path in the reference protocol",
                        found="parses %s; type %s; buffer %s; exit %s" % (list(p[1]), p[2], "+".join(p[3]) or "empty", p[4]))
        got_guards = set(p[0] for p in got)
        for w in sorted(want, key=str):
            if w not in got and w[0] not in got_guards:
                rp.fail("PATH", "%s/%s/missing" % (m, "/".join(w[0]) or "-"), site(f), "reference path [%s] (exit %s) does not exist in the code" % (", ".join(w[0]), w[4]))
    # the one-shot payload parser must signal "fragment" by Incomplete / ErrorKind::Complete and by nothing else:
    # in the arms of the fragmentable content types the first thing that can fail on a short input is a streaming read
    # under complete(); a rejection that depends only on the declared record length must not come before those reads
    from ..pir import Ev, Opaque, walk_steps
    from ..grammar_check import free_vars
    rp.rule("FRAGMENT-SIGNAL", "in the Handshake and Heartbeat arms of parse_tls_record_with_header the message grammar starts with a streaming read under complete(); no guard over parameters only (e.g. the record length) precedes the first read")
    try:
        seq = Ev(F).fn_seq("tls_record::parse_tls_record_with_header")
        sw = [st for st in seq["steps"] if st[0] == "switch"]
        arms = {c: s for c, s in sw[0][3]} if sw else {}
        for ct, nm in ((0x16, "handshake"), (0x18, "heartbeat")):
            a = arms.get(ct)
            if not rp.check(a is not None, "FRAGMENT-SIGNAL", nm + "/arm", "src/tls_record.rs", "no arm for content type %#x" % ct):
                continue
            # descend through many1/complete wrappers to the message grammar
            cur = a
            wrappers = []
            while len(cur["steps"]) == 1 and cur["steps"][0][0] in ("many1", "many0", "complete"):
                wrappers.append(cur["steps"][0][0])
                cur = cur["steps"][0][2]
            first = cur["steps"][0] if cur["steps"] else None
            early = []
            for stp in cur["steps"]:
                if stp[0] in ("u", "bytes", "tag"):
                    break
                if stp[0] == "guard":
                    fv = set()
                    free_vars(stp[1], fv)
                    if all(x.startswith("?") for x in fv):
                        early.append(stp)
            rp.check(first is not None and not early and ("complete" in wrappers or first[0] in ("u", "bytes")), "FRAGMENT-SIGNAL", nm, "src/tls_message.rs" if nm == "heartbeat" else "src/tls_handshake.rs",
                     "a short first fragment of a %s payload is rejected before the streaming reads can signal Incomplete/Complete (guard over the record length precedes the reads): the defragmenter would refuse the fragment instead of buffering it" % nm,
                     found=str(early[:1] or first)[:200], why_ok="message grammar starts with a streaming read (wrappers: %s)" % wrappers)
    except (Opaque, KeyError) as o:
        rp.fail("FRAGMENT-SIGNAL", "unrecognised", "src/tls_record.rs", "parse_tls_record_with_header cannot be read: %s" % o)
    v = F.const_val("tls_records_parser::MAX_RECORD_DATA")
    rp.check(v == S.MAX, "CONSTANTS", "MAX_RECORD_DATA", "src/tls_records_parser.rs", "MAX_RECORD_DATA is %s, not 10 MiB" % v, expected=S.MAX, found=v)
    a = F.adts.get("tls_records_parser::TlsRecordsParser")
    if rp.check(a is not None, "CONSTANTS", "struct", "src/tls_records_parser.rs", "TlsRecordsParser not found"):
        fields = {fl["name"]: fl for fl in a["variants"][0]["fields"]}
        rp.check(set(fields) == {"record_defrag_buffer", "current_record_type"} and not any(fl["public"] for fl in fields.values()), "CONSTANTS", "private-state", site(a),
                 "defragmenter state is not exactly the two private fields (buffer, current type): outside code could alter it", found=sorted((k, v_["public"]) for k, v_ in fields.items()))
        rp.check(fields.get("record_defrag_buffer", {}).get("ty", "").startswith("alloc::vec::Vec<u8") and "Option<tls_record::TlsRecordType>" in fields.get("current_record_type", {}).get("ty", ""), "CONSTANTS", "state-types", site(a),
                 "state field types changed", found={k: v_["ty"] for k, v_ in fields.items()})
    # Default::default() (derived or written by hand) must be the fresh parser: evaluated, not matched by shape
    try:
        dflt = SemExec(F, F.fn(P + "reset") or {"params": [], "hir": None}).call_default({}, __import__("analysis.defrag_sem", fromlist=["St"]).St(), 0)
        okd = all(v[0] == "parserval" and v[1] == ("buf", ()) and v[2] == ("opt", None) for v, _, _ in dflt) and bool(dflt)
        rp.check(okd, "CONSTANTS", "default-is-fresh", "src/tls_records_parser.rs", "Default for TlsRecordsParser is not the fresh parser (empty buffer, no current type)", found=str([v for v, _, _ in dflt])[:200],
                 why_ok="Default::default() = empty buffer, no current type")
    except Unrec as u:
        rp.fail("CONSTANTS", "default-is-fresh", "src/tls_records_parser.rs", "Default for TlsRecordsParser cannot be read: %s" % u)
    # only these methods may touch the state: who-may-write
    from ..core import walk, strip_ref
    writers = set()
    for f in F.hir_fns():
        for e in walk(f["hir"]):
            if e.get("k") == "field" and e["name"] in ("record_defrag_buffer", "current_record_type") and e.get("of", "").endswith("tls_records_parser::TlsRecordsParser"):
                writers.add(f["path"].split("::{closure")[0])
    allowed = {P + m for m in S.METHODS} | {"<tls_records_parser::TlsRecordsParser as core::fmt::Debug>::fmt", "<tls_records_parser::TlsRecordsParser as core::default::Default>::default"}
    # private helpers of the four methods are covered by the path analysis (they are inlined); an exported function
    # that touches the state would be a fifth way to drive the state machine
    extra = sorted(w for w in writers - allowed if (F.fn(w) or {}).get("exported", True))
    rp.check(not extra, "CONSTANTS", "who-may-touch-state", "src/tls_records_parser.rs", "other exported functions access the defragmenter state: %s" % extra, why_ok="state is touched only by %s" % sorted(w.split("::")[-1] for w in writers))
    rp.assume("the one-shot parser parse_tls_record_with_header is the function checked by C03; nom error kinds Complete/Incomplete as produced by complete()/streaming parsers")
    rp.assume("append-only buffer + these path summaries imply: buffer = data_1 ++ ... ++ data_k and the result is the one-shot parser applied to it; that the one-shot parser's verdict on a concatenation is what the property expects for every split is nom semantics (not decided)")
    return rp.finish(level="other", exhaustive=True, explanation="Exhaustive path enumeration (the methods are loop-free): %d entry->exit paths abstracted to (guards, ordered effects, exit class) and compared as a set with the reference protocol." % total)
