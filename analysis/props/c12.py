"""C12 - cipher-suite registry."""
import os, re
from ..core import Facts, Report, site, VERIF, strip, strip_ref, walk, path_of
from ..extract import extract
from ..aeval import AEval, Unknown, ANY

TC = "tls_ciphers::"
# the checker's own token -> variant table (independent of build.rs's title-casing)
KX = {"NULL": "Null", "PSK": "Psk", "KRB5": "Krb5", "SRP": "Srp", "RSA": "Rsa", "DH": "Dh", "DHE": "Dhe", "ECDH": "Ecdh", "ECDHE": "Ecdhe", "AECDH": "Aecdh", "ECCPWD": "Eccpwd", "TLS13": "Tls13"}
AU = {"NULL": "Null", "PSK": "Psk", "KRB5": "Krb5", "SRP": "Srp", "SRP+DSS": "Srp_Dss", "SRP+RSA": "Srp_Rsa", "DSS": "Dss", "RSA": "Rsa", "DHE": "Dhe", "ECDSA": "Ecdsa", "ECCPWD": "Eccpwd", "TLS13": "Tls13"}
ENC = {"NULL": "Null", "DES": "Des", "3DES": "TripleDes", "RC2": "Rc2", "RC4": "Rc4", "ARIA": "Aria", "IDEA": "Idea", "SEED": "Seed", "AES": "Aes", "CAMELLIA": "Camellia",
       "CHACHA20_POLY1305": "Chacha20_Poly1305", "SM4": "Sm4", "AEGIS": "Aegis"}
MODE = {"": "Null", "NULL": "Null", "CBC": "Cbc", "CCM": "Ccm", "GCM": "Gcm"}
MAC = {"NULL": "Null", "HMAC-MD5": "HmacMd5", "HMAC-SHA1": "HmacSha1", "HMAC-SHA256": "HmacSha256", "HMAC-SHA384": "HmacSha384", "HMAC-SHA512": "HmacSha512", "AEAD": "Aead"}
PRF = {"DEFAULT": "Default", "NULL": "Null", "MD5ANDSHA1": "Md5AndSha1", "SHA1": "Sha1", "SHA256": "Sha256", "SHA384": "Sha384", "SHA512": "Sha512", "SM3": "Sm3"}
MAC_LEN = {"Null": 0, "Aead": 0, "HmacMd5": 16, "HmacSha1": 20, "HmacSha256": 32, "HmacSha384": 48, "HmacSha512": 64}
BLOCK = {"Des": 8, "TripleDes": 8, "Idea": 8, "Rc2": 8, "Aes": 16, "Aria": 16, "Camellia": 16, "Seed": 16, "Sm4": 16, "Null": 0, "Rc4": 0, "Chacha20_Poly1305": 0, "Aegis": 0}
# names whose tokens do not follow the TLS_<kx>_WITH_<cipher>_<mac> convention (IANA assigns them as is)
NAME_SPECIALS = {"TLS_EMPTY_RENEGOTIATION_INFO_SCSV": "signalling value, not a suite", "TLS_FALLBACK_SCSV": "signalling value, not a suite",
                 "TLS_SHA256_SHA256": "RFC 9150 integrity-only suite", "TLS_SHA384_SHA384": "RFC 9150 integrity-only suite"}


def parse_txt(path):
    rows = {}
    order = []
    with open(path) as fh:
        for ln, line in enumerate(fh, 1):
            line = line.rstrip("\n")
            if not line:
                continue
            v = line.split(":")
            if len(v) < 10:
                raise ValueError("line %d has %d columns" % (ln, len(v)))
            rid = int(v[0], 16)
            row = {"id": rid, "name": v[1], "kx": KX.get(v[2], "?" + v[2]), "au": AU.get(v[3], "?" + v[3]), "enc": ENC.get(v[4], "?" + v[4]), "enc_mode": MODE.get(v[5], "?" + v[5]),
                   "enc_size": int(v[6]), "mac": MAC.get(v[7], "?" + v[7]), "mac_size": int(v[8]), "prf": PRF.get(v[9], "?" + v[9]), "raw": v, "line": ln}
            order.append(row)
            rows.setdefault(rid, row)
    return rows, order


def hir_entries(f):
    """entries of the phf map literal: [(key, {field: value})]"""
    body = strip(f["hir"])
    if body["k"] != "struct" or not body["res"]["path"].startswith("phf::map::Map"):
        return None
    ent = [x for x in body["fields"] if x["name"] == "entries"]
    if not ent:
        return None
    arr = strip_ref(ent[0]["e"])
    if arr["k"] != "array":
        return None
    out = []
    for t in arr["xs"]:
        t = strip(t)
        if t["k"] != "tup" or len(t["xs"]) != 2:
            return None
        k = strip(t["xs"][0])
        s = strip(t["xs"][1])
        if k["k"] != "lit" or s["k"] != "struct" or s["res"]["path"] != TC + "TlsCipherSuite":
            return None
        row = {}
        for fl in s["fields"]:
            e = strip(fl["e"])
            if e["k"] == "lit":
                row[fl["name"]] = e.get("s", e.get("v"))
            elif e["k"] == "call" and path_of(e["f"]) == "tls_handshake::TlsCipherSuiteID":
                row[fl["name"]] = strip(e["args"][0]).get("v")
            elif e["k"] == "path":
                row[fl["name"]] = e["path"].split("::")[-1]
            else:
                return None
        out.append((k["v"], row))
    return out


def name_tokens(row):
    """problems with the agreement between the IANA name and the parameter columns"""
    name = row["name"]
    v = row["raw"]
    probs = []
    if name in NAME_SPECIALS:
        return probs
    if not name.startswith("TLS_"):
        return ["name does not start with TLS_"]
    body = name[4:]
    if "_WITH_" in body:
        kxau, cipher = body.split("_WITH_", 1)
    else:
        kxau, cipher = "", body  # TLS 1.3 style
    # --- cipher / key size / mode
    enc, mode, size = v[4], v[5], int(v[6])
    enc_tok = {"3DES": "3DES_EDE", "CHACHA20_POLY1305": "CHACHA20_POLY1305"}.get(enc, enc)
    if enc == "NULL":
        if not re.search(r"(^|_)NULL(_|$)", cipher):
            probs.append("enc NULL but name has a cipher")
    elif enc_tok not in cipher:
        probs.append("cipher token %s not in name" % enc_tok)
    m = re.search(r"(?:AES|CAMELLIA|ARIA|SEED|SM4|AEGIS|RC4|RC2_CBC|DES|DES40)_?(\d+)[A-Z]?(?:_|$)", cipher)
    sized = {"AES", "CAMELLIA", "ARIA", "AEGIS", "RC4", "RC2"}
    if enc in sized and m and int(m.group(1)) in (40, 56, 128, 256) and int(m.group(1)) != size:
        probs.append("key size in name %s != %d" % (m.group(1), size))
    if "DES40" in cipher and size != 40:
        probs.append("DES40 but size %d" % size)
    for tok, col in (("GCM", "GCM"), ("CCM", "CCM"), ("CBC", "CBC")):
        if re.search(r"_%s(_|$)" % tok, cipher) and mode != col:
            probs.append("mode token %s but column %s" % (tok, mode or "none"))
    if mode in ("GCM", "CCM", "CBC") and not re.search(r"_%s(_|$)" % mode, cipher) and not (mode == "CBC" and enc in ("SEED",) and "SEED_CBC" in cipher):
        probs.append("mode column %s not in name" % mode)
    # --- mac / prf from the trailing hash token
    tail = cipher.split("_")[-1]
    mac = v[7]
    if tail == "MD5" and mac != "HMAC-MD5":
        probs.append("name ends in MD5 but mac %s" % mac)
    if tail == "SHA" and mac != "HMAC-SHA1":
        probs.append("name ends in SHA but mac %s" % mac)
    if tail in ("SHA256", "SHA384", "SHA512") and mac.startswith("HMAC") and mac != "HMAC-" + tail:
        probs.append("name ends in %s but mac %s" % (tail, mac))
    if tail in ("SHA256", "SHA384", "SM3") and mac == "AEAD" and v[9] not in (tail, "DEFAULT"):
        probs.append("AEAD suite ends in %s but prf %s" % (tail, v[9]))
    # --- key exchange / authentication prefix
    exp = {
        "RSA": ("RSA", "RSA"), "RSA_EXPORT": ("RSA", "RSA"), "RSA_EXPORT1024": ("RSA", "RSA"), "RSA_FIPS": ("RSA", "RSA"), "DH_DSS": ("DH", "DSS"), "DH_DSS_EXPORT": ("DH", "DSS"), "DH_RSA": ("DH", "RSA"), "DH_RSA_EXPORT": ("DH", "RSA"),
        "DHE_DSS": ("DHE", "DSS"), "DHE_DSS_EXPORT": ("DHE", "DSS"), "DHE_DSS_EXPORT1024": ("DHE", "DSS"), "DHE_RSA": ("DHE", "RSA"), "DHE_RSA_EXPORT": ("DHE", "RSA"), "DH_anon": ("DH", "NULL"), "DH_anon_EXPORT": ("DH", "NULL"),
        "KRB5": ("KRB5", "KRB5"), "KRB5_EXPORT": ("KRB5", "KRB5"), "PSK": ("PSK", "PSK"), "DHE_PSK": ("DHE", "PSK"), "RSA_PSK": ("RSA", "PSK"), "ECDH_ECDSA": ("ECDH", "ECDSA"), "ECDHE_ECDSA": ("ECDHE", "ECDSA"),
        "ECDH_RSA": ("ECDH", "RSA"), "ECDHE_RSA": ("ECDHE", "RSA"), "ECDH_anon": ("ECDH", "NULL"), "SRP_SHA": ("SRP", "SRP"), "SRP_SHA_RSA": ("SRP", "SRP+RSA"), "SRP_SHA_DSS": ("SRP", "SRP+DSS"),
        "ECDHE_PSK": ("ECDHE", "PSK"), "PSK_DHE": ("DHE", "PSK"), "ECCPWD": ("ECCPWD", "ECCPWD"), "NULL": ("NULL", "NULL"), "": ("TLS13", "TLS13"),
    }
    if kxau in exp:
        if (v[2], v[3]) != exp[kxau]:
            probs.append("prefix %s implies kx/au %s but columns say %s/%s" % (kxau or "(TLS 1.3)", exp[kxau], v[2], v[3]))
    else:
        probs.append("unknown key-exchange prefix %s" % kxau)
    return probs


def table_rules(rp, F, repo, rule="TABLE=TXT"):
    """registry (HIR of static CIPHERS) == scripts/tls-ciphersuites.txt; returns (rows, order)"""
    txt = os.path.join(repo, "scripts", "tls-ciphersuites.txt")
    rows, order = parse_txt(txt)
    rp.check(len(order) == len(rows), rule, "txt/unique-ids", "scripts/tls-ciphersuites.txt", "duplicate ids in the txt", found=len(order) - len(rows))
    names = [r["name"] for r in order]
    rp.check(len(set(names)) == len(names), rule, "txt/unique-names", "scripts/tls-ciphersuites.txt", "duplicate names in the txt", found=[n for n in set(names) if names.count(n) > 1][:3])
    for r in order:
        bad = [k for k in ("kx", "au", "enc", "enc_mode", "mac", "prf") if r[k].startswith("?")]
        if bad:
            rp.fail(rule, "txt/token/%04x" % r["id"], "scripts/tls-ciphersuites.txt:%d" % r["line"], "unknown algorithm token(s) %s" % [r[k] for k in bad])
    st = F.fn("tls_ciphers::CIPHERS")
    ents = hir_entries(st) if st else None
    if rp.check(ents is not None, rule, "CIPHERS/readable", "src/tls_ciphers.rs", "static CIPHERS is not a phf map literal the analysis can read"):
        rp.check(len(ents) == len(rows), rule, "cardinality", site(st), "registry has %d entries, txt has %d rows" % (len(ents), len(rows)), expected=len(rows), found=len(ents))
        seen = set()
        for key, e in ents:
            k = "%04x" % key
            if key in seen:
                rp.fail(rule, "dup-key/" + k, site(st), "duplicate key in the map")
            seen.add(key)
            r = rows.get(key)
            if r is None:
                rp.fail(rule, "extra/" + k, site(st), "registry entry %s (%s) is not in the txt" % (k, e.get("name")))
                continue
            exp = {x: r[x] for x in ("name", "id", "kx", "au", "enc", "enc_mode", "enc_size", "mac", "mac_size", "prf")}
            rp.check(e == exp, rule, "row/" + k, site(st), "registry entry %s differs from its txt row" % k, expected=exp, found=e, why_ok=r["name"])
        for rid in rows:
            if rid not in seen:
                rp.fail(rule, "missing/%04x" % rid, site(st), "txt row %04x (%s) is not in the registry" % (rid, rows[rid]["name"]))
    # snapshot
    snap, sorder = parse_txt(os.path.join(VERIF, "spec", "ciphers_snapshot.txt"))
    nsnap = 0
    for rid, s in snap.items():
        r = rows.get(rid)
        nsnap += 1
        if r is None or r["raw"][:10] != s["raw"][:10]:
            rp.fail((rule if rule != "TABLE=TXT" else "SNAPSHOT"), "%04x" % rid, "scripts/tls-ciphersuites.txt", "IANA assignment %04x %s was altered or removed" % (rid, s["name"]), expected=":".join(s["raw"][:10]), found=":".join(r["raw"][:10]) if r else None)
    rp.ok((rule if rule != "TABLE=TXT" else "SNAPSHOT"), "scripts/tls-ciphersuites.txt", "rows-compared", "%d snapshot rows" % nsnap)
    rp.floor("snapshot_rows", nsnap, 352)
    return rows, order


def run(tier, repo):
    rp = Report("C12", tier)
    facts, info = extract(repo, "default", want_mir=False)
    F = Facts(facts, info)
    rp.configs.append("default")
    rp.rule("TABLE=TXT", "the entries of static CIPHERS (read from the HIR of the generated initializer) equal the rows of scripts/tls-ciphersuites.txt under the checker's own token table: id key, id field, name, 8 parameters, same cardinality")
    rp.rule("SNAPSHOT", "every (id, name, parameters) of spec/ciphers_snapshot.txt is still present unchanged in the txt (additions allowed)")
    rp.rule("LOOKUPS", "from_id / TryFrom<u16> / TryFrom<TlsCipherSuiteID> / get_ciphersuite pass the queried id unchanged to CIPHERS.get; name lookup compares whole strings with ==")
    rp.rule("DERIVED", "enc_key_size = enc_size/8; mac_length and enc_block_size tables equal the reference and mac_length = mac_size/8 on every HMAC row")
    rp.rule("NAME-TOKENS", "cipher, key size, mode, MAC/PRF and kx/au tokens of each IANA name agree with the columns")
    rows, order = table_rules(rp, F, repo)
    rp.floor("registry_rows", len(rows), 352)

    # lookups: each body is evaluated symbolically (local helpers and delegations inlined) and its canonical form is compared
    from .c15 import body_sym
    from ..pir import sym_str
    GET = "phf::map::Map::<K, V>::get"
    TAB = ["unit", "tls_ciphers::CIPHERS"]
    def get_of(key):
        return ["mcall", GET, [TAB, key]]
    def find_by_name(who):
        return ["mcall", "core::iter::traits::iterator::Iterator::find", [["mcall", "phf::map::Map::<K, V>::values", [TAB]], ["lam", 1, ["op", "==", ["fld", ["lp", 0], "name"], who]]]]
    def unwrap_ok_or(s):
        if s[0] == "mcall" and s[1] in ("core::option::Option::<T>::ok_or", "core::option::Option::<T>::ok_or_else") and len(s[2]) == 2:
            return s[2][0]
        return None
    def sym_of(f):
        try:
            return body_sym(F, f)
        except Exception as ex:
            return ["opaque", str(ex)]
    def eq_name_lam(s, who):
        """find(values(CIPHERS), |c| c.name == who) with the comparison written either way round"""
        if s == find_by_name(who):
            return True
        alt = find_by_name(who)
        alt[2][1][2] = ["op", "==", who, ["fld", ["lp", 0], "name"]]
        return s == alt
    f = F.fn("tls_ciphers::TlsCipherSuite::from_id")
    s = sym_of(f) if f else None
    rp.check(f is not None and s == get_of(["p", "a0"]), "LOOKUPS", "from_id", site(f) if f else "src/tls_ciphers.rs", "from_id is not CIPHERS.get(&id)", found=sym_str(s) if s else None)
    for f in F.hir_fns():
        if f.get("impl_trait_path") == "core::convert::TryFrom" and f.get("impl_self") == "&'static tls_ciphers::TlsCipherSuite" and f.get("name") == "try_from":
            arg = f["inputs"][0]
            s = sym_of(f)
            inner = unwrap_ok_or(s)
            if arg == "u16":
                rp.check(inner == get_of(["p", "a0"]), "LOOKUPS", "TryFrom<u16>", site(f), "TryFrom<u16> is not CIPHERS.get(&value).ok_or(..)", found=sym_str(s))
            elif arg == "tls_handshake::TlsCipherSuiteID":
                rp.check(inner == get_of(["fld", ["p", "a0"], "0"]), "LOOKUPS", "TryFrom<TlsCipherSuiteID>", site(f), "TryFrom<TlsCipherSuiteID> is not CIPHERS.get(&value.0).ok_or(..)", found=sym_str(s))
            elif "str" in arg:
                rp.check(inner is not None and eq_name_lam(inner, ["p", "a0"]), "LOOKUPS", "TryFrom<&str>", site(f), "TryFrom<&str> is not an exact whole-name comparison over all entries", found=sym_str(s))
    f = F.fn("tls_handshake::TlsCipherSuiteID::get_ciphersuite")
    s = sym_of(f) if f else None
    rp.check(f is not None and s == get_of(["fld", ["p", "self"], "0"]), "LOOKUPS", "get_ciphersuite", site(f) if f else "src/tls_handshake.rs", "get_ciphersuite is not from_id(self.0)", found=sym_str(s) if s else None)
    f = F.fn("tls_ciphers::TlsCipherSuite::from_name")
    s = sym_of(f) if f else None
    rp.check(f is not None and eq_name_lam(s, ["p", "a0"]), "LOOKUPS", "from_name", site(f) if f else "src/tls_ciphers.rs", "from_name is not an exact whole-name comparison (==) over all entries", found=sym_str(s) if s else None)

    # derived sizes
    f = F.fn("tls_ciphers::TlsCipherSuite::enc_key_size")
    if rp.check(f is not None, "DERIVED", "enc_key_size/present", "src/tls_ciphers.rs", "enc_key_size not found"):
        bad = None
        try:
            for k in range(0, 65536):
                r = AEval(F).call_fn(f["path"], [("rec", {"enc_size": ("int", k)})])
                if r != ("int", k // 8):
                    bad = (k, r)
                    break
        except Unknown as u:
            bad = ("?", str(u))
        rp.check(bad is None, "DERIVED", "enc_key_size", site(f), "enc_key_size != enc_size/8 at %s" % (bad,), why_ok="= enc_size/8 for all 65536 sizes")
    for fname, field, enum, ref in (("mac_length", "mac", "TlsCipherMac", MAC_LEN), ("enc_block_size", "enc", "TlsCipherEnc", BLOCK)):
        f = F.fn("tls_ciphers::TlsCipherSuite::" + fname)
        adt = F.adts.get(TC + enum)
        if not rp.check(f is not None and adt is not None, "DERIVED", fname + "/present", "src/tls_ciphers.rs", "%s not found" % fname):
            continue
        variants = [v["name"] for v in adt["variants"]]
        rp.check(sorted(variants) == sorted(ref), "DERIVED", fname + "/variants", site(adt), "variants of %s differ from the reference table" % enum, expected=sorted(ref), found=sorted(variants))
        for v in variants:
            try:
                r = AEval(F).call_fn(f["path"], [("rec", {field: ("enum", TC + enum + "::" + v, [])})])
                got = r[1] if r[0] == "int" else r
            except Unknown as u:
                got = "undetermined: %s" % u
            rp.check(got == ref.get(v), "DERIVED", "%s/%s" % (fname, v), site(f), "%s(%s) = %s, expected %s" % (fname, v, got, ref.get(v)), expected=ref.get(v), found=got, why_ok="= %s" % ref.get(v))
    for r in order:
        if r["mac"].startswith("Hmac"):
            rp.check(r["mac_size"] // 8 == MAC_LEN.get(r["mac"]) and r["mac_size"] % 8 == 0, "DERIVED", "mac_bits/%04x" % r["id"], "scripts/tls-ciphersuites.txt:%d" % r["line"],
                     "MAC bits %d of %s disagree with the MAC length %s of %s" % (r["mac_size"], r["name"], MAC_LEN.get(r["mac"]), r["mac"]))
    # name tokens
    n_tok = 0
    for r in order:
        probs = name_tokens(r)
        n_tok += 1
        if probs:
            rp.fail("NAME-TOKENS", "%04x/%s" % (r["id"], r["name"]), "scripts/tls-ciphersuites.txt:%d" % r["line"], "name and parameters disagree: %s" % probs, found=":".join(r["raw"][:10]))
    rp.ok("NAME-TOKENS", "scripts/tls-ciphersuites.txt", "rows-checked", "%d rows, %d documented specials" % (n_tok, len(NAME_SPECIALS)))
    rp.assume("phf 0.11 Map::get returns the entry whose key equals the queried key (lookup code trusted; its data - keys, entries - is checked here); rustc includes $OUT_DIR/codegen.rs as written by build.rs")
    rp.assume("str == str is whole-string equality")
    return rp.finish(level="other", exhaustive=True, explanation="The generated registry is read as source (HIR of static CIPHERS, %d entries) and compared row by row with the txt under an independent token table and with a committed snapshot; "
                     "lookup routes are checked by shape (the queried id reaches Map::get unchanged), derived-size functions are evaluated abstractly over their whole domains." % len(rows))


def name_find(e, f):
    """CIPHERS.values().find(|&v| v.name == <param>)"""
    e = strip(e)
    if not (e["k"] == "mcall" and e.get("path") == "core::iter::traits::iterator::Iterator::find"):
        return False
    r = strip(e["recv"])
    if not (r["k"] == "mcall" and r.get("path") == "phf::map::Map::<K, V>::values" and path_of(r["recv"]) == "tls_ciphers::CIPHERS"):
        return False
    c = strip_ref(e["args"][0])
    if c["k"] != "closure" or len(c["params"]) != 1:
        return False
    b = strip(c["body"])
    if not (b["k"] == "bin" and b["op"] == "=="):
        return False
    sides = [strip_ref(b["a"]), strip_ref(b["b"])]
    pid = None
    for p in f["params"]:
        if p.get("k") == "bind" and "str" in p.get("ty", ""):
            pid = p["id"]
    has_name = any(s.get("k") == "field" and s["name"] == "name" for s in sides)
    has_param = any(s.get("k") == "local" and s["id"] == pid for s in sides)
    str_types = all("str" in s.get("ty", "") for s in sides)
    return has_name and has_param and str_types
