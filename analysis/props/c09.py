"""C09 - serializer output parses back (writer/reader agreement), built with --features serialize."""
import importlib.util, json, os
from ..core import Facts, Report, site, VERIF
from ..extract import extract
from ..gir import GenEv, gterm_str
from ..pir import Ev, sym_str, walk_steps
from ..grammar_check import ev_sym, code_seq


def load_spec():
    spec = importlib.util.spec_from_file_location("serialize", os.path.join(VERIF, "spec", "serialize.py"))
    m = importlib.util.module_from_spec(spec)
    spec.loader.exec_module(m)
    return m


def gdiff(a, b, path=""):
    if isinstance(a, list) and isinstance(b, list):
        if len(a) != len(b):
            return "%s: expected %s found %s" % (path, json.dumps(a)[:200], json.dumps(b)[:200])
        for i, (x, y) in enumerate(zip(a, b)):
            d = gdiff(x, y, "%s/%s" % (path, a[0] if i and isinstance(a[0], str) else i))
            if d:
                return d
        return None
    if a != b:
        return "%s: expected %s found %s" % (path, json.dumps(a)[:200], json.dumps(b)[:200])
    return None


def gnorm(g):
    """canonical form of a generator term: a dispatch floats to the top of the sequence (and of the length-prefixed block)
    it stands in - `tag, lenp[match m {..}]` and `match m { .. => tag, lenp[..] }` write the same bytes; arms in a canonical
    order; a sequence that reaches NotYetImplemented is NotYetImplemented (only successful serialisations are compared)"""
    out = []
    for s in g:
        if s[0] == "lenp":
            inner = gnorm(s[2])
            if len(inner) == 1 and inner[0][0] == "switch":
                sw = inner[0]
                out.append(["switch", sw[1], [[lab, gnorm([["lenp", s[1], g2]])] for lab, g2 in sw[2]], gnorm([["lenp", s[1], sw[3]]]) if sw[3] is not None else None])
            elif inner == [["nyi"]]:
                out.append(["nyi"])
            else:
                out.append(["lenp", s[1], inner])
        elif s[0] == "repeat":
            out.append(["repeat", s[1], gnorm(s[2])])
        elif s[0] == "switch":
            out.append(["switch", s[1], [[lab, gnorm(g2)] for lab, g2 in s[2]], gnorm(s[3]) if s[3] is not None else None])
        else:
            out.append(s)
    if any(x == ["nyi"] for x in out):
        return [["nyi"]]
    # float the first dispatch to the top
    for i, s in enumerate(out):
        if s[0] == "switch" and len(out) > 1:
            pre, post = out[:i], out[i + 1:]
            arms = [[lab, gnorm(pre + g2 + post)] for lab, g2 in s[2]]
            dflt = gnorm(pre + s[3] + post) if s[3] is not None else None
            out = [["switch", s[1], arms, dflt]]
            break
    if len(out) == 1 and out[0][0] == "switch":
        s = out[0]
        arms = sorted([[lab, g2] for lab, g2 in s[2]], key=lambda x: x[0])
        dflt = s[3]
        # a default that is itself a dispatch on the same value continues this one
        while dflt is not None and len(dflt) == 1 and dflt[0][0] == "switch" and dflt[0][1] == s[1]:
            seen = set(l for l, _ in arms)
            arms += [[l, g2] for l, g2 in dflt[0][2] if l not in seen]
            dflt = dflt[0][3]
        # variants sent to NotYetImplemented one by one are the fallback written out (an exhaustive match has no `_` arm)
        if dflt is None and any(g2 == [["nyi"]] for _, g2 in arms):
            dflt = [["nyi"]]
        if dflt == [["nyi"]]:
            arms = [[l, g2] for l, g2 in arms if g2 != [["nyi"]]]
        out = [["switch", s[1], sorted(arms, key=lambda x: x[0]), dflt]]
    return out


def walk_g(g, fn, path=""):
    for i, s in enumerate(g):
        fn(g, i, s, path)
        if s[0] == "lenp":
            walk_g(s[2], fn, path + "/lenp%d" % s[1])
        elif s[0] == "repeat":
            walk_g(s[2], fn, path + "/repeat")
        elif s[0] == "switch":
            for lab, g2 in s[2]:
                walk_g(g2, fn, path + "/" + lab.split("::")[-1])
            if s[3]:
                walk_g(s[3], fn, path + "/default")


def len_operand(sym):
    """(x, factor) if sym is len(x) [* k] possibly cast"""
    s = sym
    if s[0] == "cast":
        s = s[2]
    k = 1
    if s[0] == "op" and s[1] == "*":
        a, b = s[2], s[3]
        if a[0] == "n":
            k, s = a[1], b
        elif b[0] == "n":
            k, s = b[1], a
        if s[0] == "cast":
            s = s[2]
    if s[0] == "len":
        return s[1], k
    return None


def run(tier, repo):
    rp = Report("C09", tier)
    facts, info = extract(repo, "serialize", want_mir=False)
    F = Facts(facts, info)
    rp.configs.append("serialize")
    S = load_spec()
    rp.rule("WRITER", "the generator IR extracted from each cookie-factory serializer (helpers inlined; length_be_uN accepted as a length prefix only because its body emits the MEASURED length of the buffer it then emits) equals the reference writer of spec/serialize.py")
    rp.rule("TAG-AGREE", "every emitted type constant is the constant the parser dispatches on for that variant (handshake types, extension types, the ChangeCipherSpec message byte)")
    rp.rule("LEN-PAIRING", "every directly written length (x.len() [* k]) is immediately followed by the emission of the same x, k = element width in bytes")
    rp.rule("NYI-FALLBACK", "serializer dispatches over TlsMessage / TlsMessageHandshake / TlsExtension end in Err(GenError::NotYetImplemented)")
    rp.rule("WRITER-READER", "the width skeleton of each hello writer equals the skeleton of the parser arm for its handshake type")
    G = {}
    for path, want in S.WRITERS.items():
        f = F.fn(path)
        name = path.split("::")[-1]
        if not rp.check(f is not None, "WRITER", name + "/present", "src/tls_serialize.rs", "serializer %s not found" % path):
            continue
        ge = GenEv(F)
        g = ge.fn_gterm(path)
        G[path] = g
        rp.functions.update(ge.called | {path})
        d = gdiff(gnorm(want), gnorm(g))
        opq = "opaque" in json.dumps(g)
        rp.check(d is None and not opq, "WRITER", name, site(f), "emitted layout differs from the reference writer at %s" % (d or "an unreadable construct"), expected="spec/serialize.py", found=d or gterm_str(g)[:300],
                 why_ok="layout equals the reference writer")
    # NYI fallback + pairing, on every extracted gterm
    for path, g in G.items():
        f = F.fn(path)
        name = path.split("::")[-1]

        def chk(glist, i, s, p):
            if s[0] == "switch":
                labs = [l for l, _ in s[2]]
                if any(l.startswith(("tls_message::TlsMessage::", "tls_handshake::TlsMessageHandshake::", "tls_extensions::TlsExtension::")) for l in labs):
                    rp.check(s[3] == [["nyi"]], "NYI-FALLBACK", "%s%s" % (name, p), site(f), "dispatch over message/extension variants has no NotYetImplemented fallback", found=s[3])
            if s[0] == "emit":
                lo = len_operand(s[3])
                if lo is not None:
                    x, k = lo
                    nxt = glist[i + 1] if i + 1 < len(glist) else None
                    ok = False
                    if nxt is not None and nxt[0] == "bytes" and nxt[1] == x and k == 1:
                        ok = True
                    if nxt is not None and nxt[0] == "repeat" and nxt[1] == x and len(nxt[2]) == 1 and nxt[2][0][0] == "emit" and nxt[2][0][1] == 8 * k:
                        ok = True
                    rp.check(ok, "LEN-PAIRING", "%s%s/%s" % (name, p, sym_str(s[3])[:60]), site(f), "length field %s does not equal the byte length of what follows it" % sym_str(s[3]),
                             expected="len(x) then x (or len(x)*w then w-byte elements of x)", found=json.dumps(nxt)[:200], why_ok="prefixes exactly the following %s" % ("bytes" if k == 1 else "%d-byte elements" % k))
        walk_g(gnorm(g), chk)
    # TAG-AGREE with the parser's dispatch tables (read from the parser grammar of this same build)
    from ..pir import Opaque as _Opaque
    try:
        hs, _ = code_seq(F, "tls_handshake::parse_tls_message_handshake")
    except (_Opaque, KeyError) as o:
        rp.fail("TAG-AGREE", "handshake-parser/unrecognised", "src/tls_handshake.rs", "the handshake dispatcher cannot be read: %s" % o)
        hs = {"steps": [], "ret": None}
    arms = {}
    def find_sw(st, p):
        if st[0] == "switch" and not arms:
            for c, sq in st[3]:
                arms[c] = json.dumps(sq)
    walk_steps(hs, find_sw)
    gm = gnorm(G.get("tls_serialize::gen_tls_message") or [])
    if gm and arms and gm[0][0] == "switch":
        hsw = None
        for lab, g2 in gm[0][2]:
            if lab.endswith("::Handshake"):
                hsw = g2[0]
        if rp.check(hsw is not None and hsw[0] == "switch", "TAG-AGREE", "handshake-switch", "src/tls_serialize.rs", "handshake serializer dispatch not found"):
            for lab, g2 in hsw[2]:
                v = lab.split("::")[-1]
                firsts = []
                def first_emit(g3):
                    if g3 and g3[0][0] == "emit":
                        firsts.append(g3[0][3])
                    elif g3 and g3[0][0] == "switch":
                        for _, g4 in g3[0][2]:
                            first_emit(g4)
                first_emit(g2)
                for t in firsts:
                    code = t[1] if t[0] == "n" else None
                    built = arms.get(code, "")
                    rp.check(code is not None and ('"tls_handshake::TlsMessageHandshake::%s"' % v) in built, "TAG-AGREE", "handshake/%s" % v, "src/tls_serialize.rs",
                             "serializer writes handshake type %s for %s but the parser's arm for that type does not build %s" % (code, v, v), expected=S.HS_TYPE_OF.get(v), found=code,
                             why_ok="type %s <-> %s in the parser dispatch" % (code, v))
        # ChangeCipherSpec message byte must pass the parser's check
        ccs_g = G.get("tls_serialize::gen_tls_changecipherspec")
        try:
            raw = Ev(F).fn_seq("tls_message::parse_tls_message_changecipherspec")
        except (_Opaque, KeyError) as o:
            raw = {"steps": [], "ret": None}
        ok = False
        why = "unreadable"
        if ccs_g and len(ccs_g) == 1 and ccs_g[0][0] == "emit" and ccs_g[0][1] == 8 and ccs_g[0][3][0] == "n" and raw["steps"] and raw["steps"][0][0] == "u":
            b = raw["steps"][0][1]
            guards = [st for st in raw["steps"] if st[0] == "guard"]
            try:
                rejected = any(ev_sym(gd[1], {b: ccs_g[0][3][1]}) for gd in guards)
                ok = not rejected and len(raw["steps"]) == 1 + len(guards)
                why = "byte %#x is %s by parse_tls_message_changecipherspec" % (ccs_g[0][3][1], "rejected" if rejected else "accepted")
            except Exception as ex:
                why = str(ex)
        rp.check(ok, "TAG-AGREE", "gen_tls_changecipherspec", "src/tls_serialize.rs", "serialized ChangeCipherSpec message does not parse back: " + why, why_ok=why)
    ge = G.get("tls_serialize::gen_tls_extension")
    if ge:
        for lab, g2 in ge[0][2]:
            v = lab.split("::")[-1]
            t = g2[0][3] if g2 and g2[0][0] == "emit" and g2[0][1] == 16 else None
            code = t[1] if t and t[0] == "n" else None
            # parser side: dispatcher arm for this type must build the same variant
            try:
                ext, _ = code_seq(F, "tls_extensions::parse_tls_extension")
            except (_Opaque, KeyError) as o:
                rp.fail("TAG-AGREE", "extension-parser/unrecognised", "src/tls_extensions.rs", "the extension dispatcher cannot be read: %s" % o)
                break
            built = {}
            def find_ext(st, p):
                if st[0] == "switch" and not built:
                    for c, sq in st[3]:
                        built[c] = json.dumps(sq)
            walk_steps(ext, find_ext)
            rp.check(code is not None and ('"tls_extensions::TlsExtension::%s"' % v) in built.get(code, ""), "TAG-AGREE", "extension/%s" % v, "src/tls_serialize.rs",
                     "serializer writes extension type %s for %s but the parser decodes that type differently" % (code, v), expected=S.EXT_TYPE_OF.get(v), found=code, why_ok="type %s <-> %s" % (code, v))
    # writer/reader width skeletons for the hello messages
    def wskel(g):
        out = []
        for s in g:
            if s[0] == "emit":
                lo = len_operand(s[3])
                out.append(("L", s[1]) if lo is not None else ("U", s[1]))
            elif s[0] == "bytes":
                if out and out[-1][0] == "L" and not (len(out[-1]) > 2):
                    out[-1] = ("L", out[-1][1], "done")
                else:
                    out.append(("B",))
            elif s[0] == "repeat":
                if out and out[-1][0] == "L":
                    out[-1] = ("L", out[-1][1], "done")
                else:
                    out.append(("R", tuple(wskel(s[2]))))
            elif s[0] == "lenp":
                out.append(("P", s[1], tuple(wskel(s[2]))))
            elif s[0] == "switch":
                alts = sorted(set(tuple(wskel(g2)) for _, g2 in s[2]))
                # Option written as opaque<N>: None -> length 0, Some -> length + bytes
                if len(alts) == 2 and all(len(a) >= 1 for a in alts) and any(a == (("U", alts[0][0][1]),) for a in alts) and any(len(a) == 1 and a[0][0] == "L" for a in alts):
                    out.append(("L", alts[0][0][1], "done"))
                else:
                    out.append(("S", tuple(alts)))
        return [x[:2] if x[0] == "L" else x for x in out]

    def rskel(seq):
        out = []
        steps = seq["steps"]
        i = 0
        while i < len(steps):
            st = steps[i]
            k = st[0]
            if k == "u":
                b = st[1]
                # length prefix? look ahead over guards for cond/bytes/ite/sub consuming V(b)
                j = i + 1
                while j < len(steps) and steps[j][0] == "guard":
                    j += 1
                nxt = steps[j] if j < len(steps) else None
                uses = json.dumps(nxt) if nxt else ""
                if nxt is not None and ('["v", "%s"]' % b) in uses and nxt[0] in ("bytes", "cond", "ite", "count"):
                    out.append(("L", st[2]))
                    i = j + 1
                    # bytes followed by sub on it: still the same region
                    if i < len(steps) and steps[i][0] == "sub" and nxt[0] == "bytes" and steps[i][2] == ["v", nxt[1]]:
                        i += 1
                    continue
                out.append(("U", st[2]))
            elif k == "bytes":
                out.append(("B",))
            elif k == "opt":
                inner = st[2]["steps"]
                if len(inner) == 1 and inner[0][0] == "complete":
                    out += rskel(inner[0][2])
                else:
                    out.append(("O",))
            elif k == "guard":
                pass
            else:
                out.append((k,))
            i += 1
        return out
    arms_seq = {}
    def grab(st, p):
        if st[0] == "switch" and not arms_seq:
            for c, sq in st[3]:
                arms_seq[c] = sq
    walk_steps(hs, grab)
    for fn, code in (("tls_serialize::gen_tls_clienthello", 1),):
        g = G.get(fn)
        if g and code in arms_seq and len(g) == 2 and g[1][0] == "lenp":
            w = wskel(g[1][2])
            r = rskel(arms_seq[code])
            rp.check(w == r, "WRITER-READER", fn.split("::")[-1], "src/tls_serialize.rs", "field layout written by the serializer differs from what the parser reads", expected=r, found=w, why_ok="skeleton %s on both sides" % (w,))
    # Serialize trait impls: serialize(&self) = gen_simple(<the generator of that type>(self), Vec::new())
    rp.rule("SERIALIZE-IMPLS", "the Serialize impls of TlsMessageHandshake / TlsMessage / TlsPlaintext run the matching generator on self into a fresh vector")
    from ..core import strip, path_of
    want = {"tls_handshake::TlsMessageHandshake<'a>": "tls_serialize::gen_tls_messagehandshake", "tls_message::TlsMessage<'a>": "tls_serialize::gen_tls_message", "tls_record::TlsPlaintext<'a>": "tls_serialize::gen_tls_plaintext"}
    seen = 0
    for f in F.hir_fns():
        if f.get("impl_trait_path") == "rusticata_macros::traits::Serialize" and f.get("name") == "serialize":
            slf = f.get("impl_self")
            # what the body runs into a fresh vector must emit what the type's generator emits (on self)
            ge = GenEv(F)
            env_ = {}
            ge.ev.bind_pat(f["params"][0], ["p", "a0"], env_)
            try:
                got = ge.run_into_vec(f["hir"], env_)
            except Exception as ex:
                got = [["opaque", str(ex)]]
            ref = G.get(want.get(slf))
            if ref is None and F.fn(want.get(slf) or "") is not None:
                ref = GenEv(F).fn_gterm(want[slf])
            ok = got is not None and ref is not None and json.dumps(gnorm(got)) == json.dumps(gnorm(ref))
            seen += 1
            rp.check(ok, "SERIALIZE-IMPLS", slf.split("::")[-1].split("<")[0], site(f), "Serialize::serialize of %s does not run %s(self) into a fresh vector and return the bytes written" % (slf, want.get(slf)),
                     found=(gterm_str(got)[:300] if got else None), why_ok="runs %s on self" % want.get(slf))
    rp.floor("serialize_impls", seen, 3)
    # the reader side of the round trip: the parsers that read serializer output back must have the reference grammar
    # (reference writers and reference readers are both written from the same RFC structures, so writer = W_ref and
    # reader = R_ref together give the round trip at the level of structure)
    from ..gcommon import grammar_rules
    rp.rule("READER-GRAMMAR", "parse_tls_plaintext, parse_tls_message_handshake and parse_tls_extension (the parsers that read the serializer's output back) equal their reference grammars in the serialize build")
    grammar_rules(rp, F, "C09", rule="READER-GRAMMAR")
    rp.floor("serializers", len(G), 11)
    rp.assume("cookie-factory 0.3.3: be_uN/slice/tuple/all/many_ref emit their arguments in order; gen(f, Vec::new()) returns the buffer and its length")
    rp.assume("wire-limit preconditions stated by the property: " + S.LIMITS + " (truncating casts `as u8`/`as u16` and `len() as u16 * 2` are exact within them)")
    return rp.finish(level="other", explanation="Writer/reader agreement decided statically: the emitted layout of each of the %d serializers is extracted from its cookie-factory tree and compared with a reference writer; "
                     "emitted type constants are checked against the parser's own dispatch tables (extracted from the same build); every direct length field must prefix exactly what follows. "
                     "Byte-level round trip through cookie-factory and nom for all values is library semantics and is not decided." % len(G))
