"""C14 - Signed Certificate Timestamp lists."""
from ..gcommon import *


def run(tier, repo):
    rp = Report("C14", tier)
    F = load(repo)
    rp.configs.append("default")
    res = grammar_rules(rp, F, "C14")
    rp.rule("NESTING", "list = u16 n, region(n){ (u16 m, region(m){content})* }: each length prefix confines what it prefixes")
    r = res.get("certificate_transparency::parse_ct_signed_certificate_timestamp_list")
    f = F.fn("certificate_transparency::parse_ct_signed_certificate_timestamp_list")
    if r and "code" in r and f:
        st = r["code"]["steps"]
        ok = len(st) == 3 and st[0][0] == "u" and st[0][2] == 16 and st[1][0] == "bytes" and st[1][2] == ["v", st[0][1]] and st[2][0] == "sub" and st[2][2] == ["v", st[1][1]]
        if ok:
            inner = st[2][3]["steps"]
            ok = len(inner) == 1 and inner[0][0] == "many0" and inner[0][2]["steps"][0][0] == "complete"
            if ok:
                e = inner[0][2]["steps"][0][2]["steps"]
                ok = len(e) == 3 and e[0][0] == "u" and e[0][2] == 16 and e[1][0] == "bytes" and e[1][2] == ["v", e[0][1]] and e[2][0] == "sub" and e[2][2] == ["v", e[1][1]]
        rp.check(ok, "NESTING", "list", site(f), "length-prefix nesting of the SCT list differs", found=[x[0] for x in st])
    r = res.get("certificate_transparency::parse_ct_signed_certificate_timestamp")
    if r and "code" in r:
        repetition_progress(rp, r["code"], "sct", "src/certificate_transparency.rs")
    if res.get("certificate_transparency::parse_ct_signed_certificate_timestamp_list", {}).get("code"):
        repetition_progress(rp, res["certificate_transparency::parse_ct_signed_certificate_timestamp_list"]["code"], "sct_list", "src/certificate_transparency.rs")
    rp.floor("grammar_functions", len(res), 2)
    rp.assume("nom 7.1.3 map_parser/length_data/many0/complete semantics")
    return rp.finish(level="other", explanation="Static grammar extraction vs the RFC 6962 sec. 3.3 structure (u16 list length, u16 entry length, version, 32-byte log id, u64 timestamp, u16 extensions, hash, signature algorithm, u16 signature), including the nesting of the three length prefixes.")
