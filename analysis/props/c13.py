"""C13 - key-exchange parameters and signatures."""
from ..gcommon import *


def run(tier, repo):
    rp = Report("C13", tier)
    F = load(repo)
    rp.configs.append("default")
    res = grammar_rules(rp, F, "C13")
    rp.rule("SELF-DELIMITING", "no element of these grammars depends on where the input ends (only fixed-width and length-prefixed elements at top level)")
    rp.rule("SIG-FLAG", "parse_content_and_signature: flag true -> content parser then algorithm-pair form; false -> content parser then legacy length-only form")
    for p, r in res.items():
        if "code" not in r or p.endswith("parse_content_and_signature"):
            continue
        bad = []
        def chk(st, path):
            if st[0] in ("many0", "many1", "opt", "complete", "all_consuming"):
                bad.append(path + ":" + st[0])
            if st[0] == "bytes" and st[2] == ["remaining"]:
                bad.append(path + ":rest")
        walk_steps(r["code"], chk)
        rp.check(not bad, "SELF-DELIMITING", p.split("::")[-1], site(F.fn(p)), "grammar depends on the input's extent: %s" % bad, found=bad, why_ok="only fixed-width / length-prefixed elements")
    r = res.get("tls_sign_hash::parse_content_and_signature")
    if r and "code" in r:
        st = r["code"]["steps"]
        # canonical form: the content parser, then the algorithm pair exactly when the flag is set, then the length-prefixed signature
        ok = [x[0] for x in st] == ["param_parser", "cond", "u", "bytes"] and st[1][2] == ["p", "arg2"] and [x[0] for x in st[1][3]["steps"]] == ["u", "u"] \
            and st[2][2] == 16 and st[3][2] == ["v", st[2][1]]
        rp.check(ok, "SIG-FLAG", "branches", site(F.fn("tls_sign_hash::parse_content_and_signature")), "flag/branch pairing of parse_content_and_signature differs", found=seq_str(r["code"])[:400])
    rp.floor("grammar_functions", len(res), 6)
    rp.assume("nom 7.1.3 length_data/pair semantics; nom-derive generated code is analysed as source, its Selector dispatch is the generated match")
    return rp.finish(level="other", explanation="Static grammar extraction (derive-generated parsers included, read from the expanded HIR) vs RFC 4492/5246 structures.")
