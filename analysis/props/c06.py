"""C06 - parsers are local and zero-copy."""
import json, re
from ..gcommon import *

COPY_CALLEES = [
    "alloc::slice::<impl [T]>::to_vec", "alloc::slice::<impl [T]>::to_vec_in", "alloc::slice::<impl [T]>::into_vec",
    "<[T] as alloc::borrow::ToOwned>::to_owned", "alloc::borrow::ToOwned::to_owned", "alloc::vec::Vec::<T, A>::extend_from_slice",
    "core::slice::<impl [T]>::copy_from_slice", "core::slice::<impl [T]>::clone_from_slice", "alloc::slice::<impl [T]>::concat",
    "alloc::string::String::from_utf8", "alloc::string::String::from_utf8_lossy", "core::str::converts::from_utf8",
    "alloc::vec::Vec::<T, A>::extend_from_within", "alloc::vec::Vec::<T, A>::append", "alloc::slice::<impl [T]>::repeat",
]
COPY_SUBSTR = ["as core::convert::From<&[T]>>::from", "as core::convert::From<&[T; N]>>::from", "alloc::boxed::Box<[T]> as core::convert::From", "alloc::borrow::Cow"]
# copies that exist by design: (callee, owner function) -> reason
ALLOWED_COPIES = {
    ("alloc::slice::<impl [T]>::to_vec", "tls_extensions::parse_tls_extension_psk_key_exchange_modes_content"): "PSK modes are returned as Vec<u8> by design (property statement)",
    # any method of the defragmenter (parse_record or a private helper of it): when it may copy is decided by DEFRAG-NOCOPY
    ("alloc::vec::Vec::<T, A>::extend_from_slice", "tls_records_parser::TlsRecordsParser::*"): "the defragmenter buffers fragments (only defragmented results borrow the internal buffer)",
}
# owned byte containers in result types that exist by design: (adt, field) -> reason
ALLOWED_OWNED = {
    ("tls_extensions::TlsExtension", "PskExchangeModes.0"): "PSK key-exchange modes are decoded into Vec<u8> by design (property statement)",
    ("tls_handshake::TlsCertificateRequestContents", "cert_types"): "decoded list of one-byte certificate type codes (length_count of u8 values), not a slice of the input",
}
OWNED_BYTES = re.compile(r"alloc::vec::Vec<u8>|alloc::string::String|alloc::boxed::Box<\[u8\]>|alloc::borrow::Cow<|(?<![&\w] )\[u8; \d+\]")


def run(tier, repo):
    rp = Report("C06", tier)
    F = load(repo, want_mir=True)
    rp.configs.append("default")
    res = grammar_rules(rp, F, "C06")
    rp.rule("REGION-USE", "after a region is cut, nested parsers are applied to the region, never to the enclosing or an earlier input")
    rp.rule("REMAINDER-SUFFIX", "the returned remainder is the remainder of the last consuming element")
    rp.rule("EXTENT-CONFINED", "in every self-delimiting parser, elements whose result depends on where the input ends (rest-of-input, remaining length, many0/many1/opt/complete) occur only inside a length-delimited region")
    rp.rule("BORROWED-FIELDS", "every byte-carrying field of the exported result types is borrowed (&'a [u8] / &'a [u8; N]); owned byte containers only where the property allows them")
    rp.rule("WHO-MAY-COPY", "calls that copy bytes occur only at the sites allowed by design (MIR call inventory of every body outside Debug/Display impls and the serializer)")
    rp.rule("SIG-LIFETIMES", "parser signatures tie every output lifetime to the input slice; parse_record_nocopy's result is tied to the record, not to &mut self")
    rp.rule("NO-STATIC-BYTES", "no byte literal is returned as part of a parsed value")
    # 1. all parser fns: anomalies
    pfs = all_parser_fns(F)
    n_ok = 0
    for f in pfs:
        ev = Ev(F)
        try:
            seq = ev.fn_seq(f["path"])
        except Opaque as o:
            rp.fail("REGION-USE", f["path"].split("::")[-1] + "/unrecognised", site(f), "construct the analysis cannot read: %s" % o)
            continue
        rp.functions.add(f["path"])
        for kind, msg, loc in ev.anomalies:
            rp.fail("REMAINDER-SUFFIX" if kind == "REMAINDER" else "REGION-USE", f["path"].split("::")[-1] + "/" + msg[:50], site(f) + " " + loc, msg)
        opq = find_opaque(seq)
        for o in opq[:3]:
            rp.fail("REGION-USE", f["path"].split("::")[-1] + "/opaque/" + str(o[-1])[:50], site(f), "construct the analysis cannot read: %s" % o)
        if not ev.anomalies and not opq:
            n_ok += 1
            rp.ok("REGION-USE", site(f), f["path"].split("::")[-1], "every nested parser runs on its region; remainder is the last element's")
        # static bytes in values
        lits = []
        def scan_ret(sq):
            r = sq["ret"]
            if r and r[0] in ("ok", "okwhole") and '"bytes_lit", [' in json.dumps(r[1]) and '"bytes_lit", []' not in json.dumps(r[1]):
                lits.append(r[1])
        scan_ret(seq)
        walk_steps(seq, lambda st, p: [scan_ret(x) for x in st if isinstance(x, dict)])
        if lits:
            rp.fail("NO-STATIC-BYTES", f["path"].split("::")[-1], site(f), "a byte literal is returned inside a parsed value", found=str(lits[0])[:200])
    rp.floor("parser_functions_analysed", len(pfs), 150)
    # 2. extent confinement of the self-delimiting parsers
    for path, r in res.items():
        if "code" not in r:
            continue
        bad = []
        def top(seq, p=""):
            for i, st in enumerate(seq["steps"]):
                k = st[0]
                here = "%s/%d:%s" % (p, i, k)
                if k in ("guard", "bytes", "ite", "switch", "cond", "count") and '["input"]' in json.dumps([x for x in st if not isinstance(x, dict)][:4]):
                    bad.append(here + "(input length)")
                if k in ("many0", "many1", "opt", "complete", "all_consuming", "alt", "count") and k != "count":
                    bad.append(here)
                if k == "bytes" and st[2] == ["remaining"]:
                    bad.append(here + "(rest)")
                if k in ("guard",) and "remaining" in json.dumps(st[1]):
                    bad.append(here + "(remaining)")
                if k == "ite":
                    if "remaining" in json.dumps(st[2]):
                        bad.append(here + "(remaining)")
                    top(st[3], here)
                    top(st[4], here)
                if k == "switch":
                    for c, sq in st[3]:
                        top(sq, here)
                    top(st[4], here)
                if k in ("cond",):
                    top(st[3], here)
                # sub: confined -> do not descend; peek: descend
                if k == "peek":
                    top(st[2], here)
        top(r.get("full_code", r["code"]))
        rp.check(not bad, "EXTENT-CONFINED", path.split("::")[-1], site(F.fn(path)), "extent-sensitive element outside any length-delimited region: %s" % bad[:4], found=bad[:8],
                 why_ok="unscoped part is fixed-width / length-prefixed only")
    # 3. field types
    n_fields = 0
    for a in F.raw["adts"]:
        if not a["exported"] or "tls_ciphers" in a["path"] or "tls_states" in a["path"] or "tls_records_parser" in a["path"]:
            continue
        for v in a["variants"]:
            for fl in v["fields"]:
                n_fields += 1
                key = (a["path"], (v["name"] + "." if a["dk"] == "Enum" else "") + fl["name"])
                m = OWNED_BYTES.search(fl["ty"])
                if m and key not in ALLOWED_OWNED:
                    rp.fail("BORROWED-FIELDS", "%s/%s" % key, site(a), "result type holds an owned byte container (%s): parsed bytes would be copied" % m.group(0), expected="&'a [u8]", found=fl["ty"])
                elif m:
                    rp.ok("BORROWED-FIELDS", site(a), "%s/%s" % key, "allowed: " + ALLOWED_OWNED[key])
                elif "[u8" in fl["ty"]:
                    rp.check(bool(re.search(r"&'a \[u8", fl["ty"])), "BORROWED-FIELDS", "%s/%s" % key, site(a), "byte field is not borrowed with the input lifetime", found=fl["ty"], why_ok=fl["ty"])
    rp.floor("result_type_fields", n_fields, 150)
    # 4. copy inventory over MIR
    n_calls = 0
    seen_allowed = set()
    for f in F.raw["fns"]:
        m = f.get("mir")
        if not m:
            continue
        owner = f["path"]
        base_owner = owner.split("::{closure")[0]
        if "tls_debug::" in owner or "tls_serialize::" in owner or re.search(r"as core::fmt::(Debug|Display|LowerHex)>", owner) or re.search(r"impl core::fmt::(Debug|Display)", owner):
            continue
        for c in m["calls"]:
            n_calls += 1
            cal = c.get("resolved") or c.get("callee") or ""
            if cal in COPY_CALLEES or any(s in cal for s in COPY_SUBSTR):
                if c.get("mx") and "vec" == c.get("mx"):
                    continue
                k = (cal, base_owner)
                if k not in ALLOWED_COPIES and base_owner.startswith("tls_records_parser::TlsRecordsParser::"):
                    k = (cal, "tls_records_parser::TlsRecordsParser::*")
                if k in ALLOWED_COPIES:
                    seen_allowed.add(k)
                    rp.ok("WHO-MAY-COPY", short_site(c, owner), "%s in %s" % (cal.split("::")[-1], base_owner.split("::")[-1]), "allowed: " + ALLOWED_COPIES[k])
                else:
                    rp.fail("WHO-MAY-COPY", "%s/%s" % (base_owner, cal.split("::")[-1]), short_site(c, owner), "bytes are copied by %s outside the sites allowed by design" % cal, found=cal)
    rp.floor("mir_calls_scanned", n_calls, 1200)
    rp.floor("allowed_copy_sites_seen", len(seen_allowed), 2)
    # 5. signatures
    n_sig = 0
    for f in pfs:
        if f.get("derived") or not f.get("exported") or f["dk"] != "Fn":
            continue  # derive-generated trait impls carry a `'nom: 'a` bound that the borrow checker enforces
        ins, out = f["inputs"], f["output"]
        lts_out = set(re.findall(r"'(\w+)", out))
        in0 = ins[0] if ins else ""
        lts_in0 = set(re.findall(r"'(\w+)", in0))
        n_sig += 1
        if not lts_out and not lts_in0:
            rp.ok("SIG-LIFETIMES", site(f), f["path"].split("::")[-1], "single elided lifetime: output borrows from the input slice")
        else:
            rp.check(lts_out <= (lts_in0 | {"_"}) and "static" not in lts_out, "SIG-LIFETIMES", f["path"].split("::")[-1], site(f), "output lifetimes %s are not those of the input slice %s" % (sorted(lts_out), sorted(lts_in0)),
                     found=f["sig"][:200], why_ok="output lifetimes %s = input's" % sorted(lts_out))
    nc = F.fn("tls_records_parser::TlsRecordsParser::parse_record_nocopy")
    if rp.check(nc is not None, "SIG-LIFETIMES", "parse_record_nocopy/present", "src/tls_records_parser.rs", "parse_record_nocopy not found"):
        self_lt = set(re.findall(r"'(\w+)", nc["inputs"][0]))
        out_lt = set(re.findall(r"'(\w+)", nc["output"]))
        rec_lt = set(re.findall(r"'(\w+)", nc["inputs"][1]))
        rp.check(out_lt == rec_lt and not (out_lt & self_lt) and out_lt, "SIG-LIFETIMES", "parse_record_nocopy", site(nc), "result of parse_record_nocopy is not tied to the record alone", found=(nc["inputs"], nc["output"]),
                 why_ok="result lifetime %s is the record's, &mut self has %s" % (sorted(out_lt), sorted(self_lt) or "its own anonymous lifetime"))
    pr = F.fn("tls_records_parser::TlsRecordsParser::parse_record")
    if pr:
        self_lt = set(re.findall(r"'(\w+)", pr["inputs"][0]))
        out_lt = set(re.findall(r"'(\w+)", pr["output"]))
        rp.check(out_lt == self_lt and out_lt, "SIG-LIFETIMES", "parse_record", site(pr), "result of parse_record must be tied to the parser borrow (it may point into the internal buffer)", found=(pr["inputs"], pr["output"]))
    # 6. the defragmenter copies only when it must
    rp.rule("DEFRAG-NOCOPY", "TlsRecordsParser: a result parsed from the internal buffer is returned only on paths where defragmentation was already in progress; bytes are appended to the buffer only there or after "
                             "the zero-copy attempt on the caller's record answered Incomplete/Complete; parse_record_nocopy never touches the buffer")
    from ..paths import PathExec, Unrec
    n_paths = 0
    for m in ("parse_record", "parse_record_nocopy"):
        f = F.fn("tls_records_parser::TlsRecordsParser::" + m)
        if not rp.check(f is not None, "DEFRAG-NOCOPY", m + "/present", "src/tls_records_parser.rs", "method %s not found" % m):
            continue
        try:
            got = PathExec(F, f).run()
        except Unrec as u:
            rp.fail("DEFRAG-NOCOPY", m + "/unrecognised", site(f), "construct the path analysis cannot read: %s" % u)
            continue
        for guards, actions, exit_ in got:
            n_paths += 1
            key = "%s/%s" % (m, "/".join(guards) or "-")
            uses_buf = [a for a in actions if a.startswith("Parse(") and not a.startswith("Parse(data)")]
            appends = [a for a in actions if a.startswith("Extend") or a.startswith("Push") or a.startswith("Append")]
            in_prog = "in_progress" in guards
            retry = any(g.startswith("parse(data)=") and (g.endswith("=Incomplete") or "Complete)" in g) for g in guards)
            if m == "parse_record_nocopy":
                rp.check(not uses_buf and not appends, "DEFRAG-NOCOPY", key, site(f), "parse_record_nocopy touches the internal buffer: %s" % list(actions), found=list(actions), why_ok="parses the caller's record only")
                continue
            ok = True
            if uses_buf and not in_prog:
                ok = False
                rp.fail("DEFRAG-NOCOPY", key + "/parse", site(f), "a record is parsed from the internal copy although no defragmentation was in progress: the result aliases the parser's buffer, not the caller's record", found=list(actions))
            if appends and not (in_prog or retry):
                ok = False
                rp.fail("DEFRAG-NOCOPY", key + "/copy", site(f), "record bytes are copied into the internal buffer before the zero-copy attempt reported a fragment", found=list(actions))
            if ok:
                rp.ok("DEFRAG-NOCOPY", site(f), key, "%s" % (list(actions),))
    rp.floor("defragmenter_paths", n_paths, 10)
    rp.floor("signatures", n_sig, 60)
    rp.check(F.meta["unsafe_code_level"] == "Forbid", "SIG-LIFETIMES", "forbid-unsafe", "src/lib.rs", "#![forbid(unsafe_code)] is required for the borrow checker to guarantee that returned slices derive from the input", found=F.meta["unsafe_code_level"])
    rp.assume("rustc's borrow checker: with no unsafe code, a &'a [u8] in a result derives from an input of lifetime 'a or is 'static (the NO-STATIC-BYTES rule excludes the latter for parsed values)")
    rp.assume("nom 7.1.3: take/length_data/number parsers return sub-slices of their input and the rest of it as remainder; map_parser gives the inner parser only the taken slice")
    return rp.finish(level="other", explanation="Structural locality rules on the canonical grammars of all %d parser bodies (every nested parser runs on its region, the remainder is the last element's, nothing extent-sensitive outside a region), "
                     "type-level zero-copy rules (field types, signatures, forbid(unsafe_code)) and a who-may-copy inventory over the MIR call sites of every body." % len(pfs))


def short_site(c, owner):
    from ..core import short_loc
    return "%s %s" % (short_loc(c.get("loc")), owner)
