"""C18 - feature matrix, no unsafe code, Send + Sync."""
import hashlib, json
from concurrent.futures import ThreadPoolExecutor
from ..core import Facts, Report, site, short_loc
from ..extract import extract, ExtractError

COMPILE_ERROR_TEXT = "cannot be enabled when using `no_std`"


import re
_DEFID = re.compile(r"DefId\(\d+:\d+ ~ ([^)]*?)\)")
_HASH = re.compile(r"\[[0-9a-f]{4}\]")


def strip_pos(x):
    """remove positions and compilation-specific identifiers (def indices, crate disambiguator hashes)"""
    if isinstance(x, dict):
        return {k: strip_pos(v) for k, v in x.items() if k not in ("loc", "bp")}
    if isinstance(x, list):
        return [strip_pos(v) for v in x]
    if isinstance(x, str) and ("DefId(" in x or "[" in x or "field_shuffle_seed" in x):
        x = re.sub(r"field_shuffle_seed: \d+", "field_shuffle_seed: _", x)
        return _HASH.sub("", _DEFID.sub(lambda m: "DefId(" + m.group(1) + ")", x))
    return x


def run(tier, repo):
    rp = Report("C18", tier)
    rp.rule("BUILD-MATRIX", "cargo check succeeds for default, --no-default-features and --features serialize; --no-default-features --features serialize is refused by the crate's own compile_error!")
    rp.rule("NO-UNSAFE", "#![forbid(unsafe_code)] is in force at the crate root and the unsafe inventory (blocks, fns, impls, traits) has no user-written entry")
    rp.rule("SEND-SYNC", "every exported ADT implements Send and Sync (trait solver, lifetimes free); static CIPHERS is Sync")
    rp.rule("CONFIG-INVARIANT", "for every function outside the serializer module the extracted HIR (resolved paths, types, structure) is identical in the three buildable configurations")
    cfgs = ["default", "nostd", "serialize"]

    def job(c):
        try:
            return c, extract(repo, c, want_mir=False), None
        except ExtractError as e:
            return c, None, str(e)

    def job_fail():
        return extract(repo, "serialize_nostd", want_mir=False, expect_fail=True)

    with ThreadPoolExecutor(4) as ex:
        futs = [ex.submit(job, c) for c in cfgs]
        ffail = ex.submit(job_fail)
        results = [f.result() for f in futs]
        _, finfo = ffail.result()
    FS = {}
    for c, r, err in results:
        if rp.check(r is not None, "BUILD-MATRIX", c, "Cargo.toml", "configuration %s does not compile: %s" % (c, (err or "")[-400:]), why_ok="compiles"):
            FS[c] = Facts(r[0], r[1])
            rp.configs.append(c)
    refused = finfo["rc"] != 0
    own = COMPILE_ERROR_TEXT in finfo["stderr"]
    rp.check(refused and own, "BUILD-MATRIX", "serialize-without-std", "src/lib.rs",
             "enabling `serialize` without `std` is not refused by the crate's compile_error! (rc=%s, own message present=%s)" % (finfo["rc"], own),
             expected="build fails with the crate's compile_error! text", found=finfo["stderr"][-300:] if not own else "rc=%s" % finfo["rc"], why_ok="refused with the crate's own compile_error!")
    # feature sets really differ as intended
    if "nostd" in FS:
        rp.check("std" not in FS["nostd"].features, "BUILD-MATRIX", "nostd/feature-off", "src/lib.rs", "--no-default-features build has feature std on", found=FS["nostd"].features,
                 why_ok="feature std is off")
    if "serialize" in FS:
        rp.check("cookie_factory" in FS["serialize"].meta["externs"] and any("tls_serialize" in m for m in FS["serialize"].raw["mods"]), "BUILD-MATRIX", "serialize/module", "src/lib.rs", "serialize build lacks the serializer module")
    # unsafe
    for c, F in FS.items():
        rp.check(F.meta["unsafe_code_level"] == "Forbid", "NO-UNSAFE", "forbid/" + c, "src/lib.rs", "lint level of unsafe_code at the crate root is %s, not forbid" % F.meta["unsafe_code_level"], why_ok="forbid")
        user = [u for u in F.unsafe if not u.get("mxs") and not u.get("mx")]
        rp.check(not user, "NO-UNSAFE", "inventory/" + c, "src/", "user-written unsafe code: %s" % [(u["what"], short_loc(u.get("loc"))) for u in user[:3]], found=len(user),
                 why_ok="%d unsafe sites, all inside std macro expansions (vec!)" % len(F.unsafe))
    # send/sync
    D = FS.get("default")
    if D:
        n = 0
        for a in D.raw["adts"]:
            if not a["exported"]:
                continue
            n += 1
            rp.check(a.get("send") and a.get("sync"), "SEND-SYNC", a["path"], site(a), "%s is not Send + Sync (send=%s sync=%s)" % (a["path"], a.get("send"), a.get("sync")), why_ok="Send + Sync")
        rp.floor("exported_adts", n, 70)
        st = D.consts.get("tls_ciphers::CIPHERS")
        rp.check(st is not None and st.get("sync"), "SEND-SYNC", "static CIPHERS", "src/tls_ciphers.rs", "static CIPHERS is not Sync")
    # config invariance
    if len(FS) == 3:
        def table(F):
            t = {}
            for f in F.raw["fns"]:
                if "tls_serialize" in f["path"] or "hir" not in f:
                    continue
                body = json.dumps(strip_pos({"hir": f["hir"], "params": f["params"], "sig": f.get("sig"), "exported": f.get("exported")}), sort_keys=True)
                t[f["path"]] = hashlib.sha1(body.encode()).hexdigest()
            return t
        T = {c: table(F) for c, F in FS.items()}
        base = T["default"]
        for c in ("nostd", "serialize"):
            only_a = sorted(set(base) - set(T[c]))
            only_b = sorted(set(T[c]) - set(base))
            # the Serialize impls live outside the module path for trait impl fns: tolerate items that mention the serializer
            only_b = [p for p in only_b if "Serialize" not in p and "cookie_factory" not in p]
            rp.check(not only_a and not only_b, "CONFIG-INVARIANT", "items/" + c, "src/lib.rs", "set of functions outside the serializer differs between default and %s: -%s +%s" % (c, only_a[:3], only_b[:3]),
                     why_ok="same %d functions" % len(base))
            diff = [p for p in base if p in T[c] and T[c][p] != base[p]]
            for p in diff[:10]:
                f = FS["default"].fn(p)
                rp.fail("CONFIG-INVARIANT", "%s/%s" % (c, p), site(f) if f else p, "function %s compiles to different code under configuration %s (cfg-dependent path in a parser)" % (p, c))
            if not diff:
                rp.ok("CONFIG-INVARIANT", "src/", "bodies/" + c, "%d function bodies identical to the default build" % len([p for p in base if p in T[c]]))
        rp.floor("functions_compared", len(base), 600)
        # ADTs identical too
        for c in ("nostd", "serialize"):
            a0 = {a["path"]: json.dumps(strip_pos(a), sort_keys=True) for a in FS["default"].raw["adts"]}
            a1 = {a["path"]: json.dumps(strip_pos(a), sort_keys=True) for a in FS[c].raw["adts"]}
            d = [p for p in a0 if a1.get(p) != a0[p]]
            rp.check(not d, "CONFIG-INVARIANT", "types/" + c, "src/", "type definitions differ under %s: %s" % (c, d[:3]), why_ok="%d type definitions identical" % len(a0))
    rp.assume("cargo feature resolution; rustc's unsafe_code lint, trait solver and borrow checker")
    rp.assume("identity of the compiled parser code across configurations is used as the substitute for equality of results on a corpus (nothing is run)")
    nob = len(rp.instances)
    return rp.finish(level="other", explanation="Four cargo check runs through the fact-extractor driver: three must compile, the fourth must be refused by the crate's compile_error!; lint level, unsafe inventory and Send/Sync verdicts come from rustc; "
                     "every function and type outside the serializer must extract to identical facts in the three buildable configurations.",
                     extra_cov={"checker_cmd": "cargo +nightly check --offline --lib (x4 feature sets) via driver/tlsfacts", "trusted_base": ["rustc 1.97 nightly", "cargo"]})
