"""C01 - parsing never panics, hangs or over-allocates: MIR panic-site inventory with guard discharge."""
import json, re
from ..core import Facts, Report, site, short_loc, strip, strip_ref, walk, path_of
from ..extract import extract
from ..guards import FactWalker, entails_ge, entails_le, entails_even
from ..pir import N, sym_str, walk_steps, can_error, consumes_always, Ev, Opaque, find_opaque
from ..gcommon import all_parser_fns
from ..grammar_check import code_seq
from ..paths import PathExec, Unrec

WIDTH = {"u8": 8, "u16": 16, "u32": 32, "u64": 64, "usize": 64, "u128": 128, "i8": 8, "i16": 16, "i32": 32, "i64": 64, "isize": 64}
UBCHECK = ("MisalignedPointerDereference", "NullPointerDereference")
# std functions with documented panics (callee path prefix/suffix) -> how the site is discharged
PANIC_CALLS = [
    (re.compile(r"^core::panicking::|^core::panic::|^std::panicking::|assert_failed"), "explicit-panic"),
    (re.compile(r"^core::(option::Option|result::Result)::<.*>::(unwrap|expect|unwrap_err|expect_err)$"), "unwrap"),
    (re.compile(r"^core::slice::index::<impl core::ops::index::Index(Mut)?<I> for \[T\]>::index(_mut)?$"), "slice-index"),
    (re.compile(r"^<alloc::vec::Vec<T, A> as core::ops::index::Index(Mut)?<I>>::index(_mut)?$"), "slice-index"),
    (re.compile(r"^core::str::traits::<impl core::ops::index::Index"), "str-index"),
    (re.compile(r"^core::slice::<impl \[T\]>::(chunks|chunks_exact|rchunks|windows|chunks_mut)$"), "chunks"),
    (re.compile(r"^core::slice::<impl \[T\]>::(split_at|split_at_mut|copy_from_slice|clone_from_slice|swap|copy_within|rotate_left|rotate_right|split_first_chunk)$"), "slice-op"),
    (re.compile(r"^alloc::vec::Vec::<T, A>::(remove|insert|swap_remove|drain|split_off|truncate_front)$"), "vec-op"),
    (re.compile(r"^core::cell::RefCell::<T>::(borrow|borrow_mut)$"), "refcell"),
    (re.compile(r"^core::num::<impl u\d+>::(pow|div_euclid|rem_euclid|next_power_of_two|abs_diff)$|^core::num::<impl usize>::(pow)$"), "int-op"),
    (re.compile(r"^alloc::slice::<impl \[T\]>::(concat|repeat)$"), "alloc-op"),
    (re.compile(r"^core::iter::traits::iterator::Iterator::step_by$"), "step-by"),
]
# size-parameterised allocators: their size argument must be a compile-time constant
SIZED_ALLOC = re.compile(r"^alloc::vec::Vec::<T(, A)?>::(with_capacity|with_capacity_in|reserve|reserve_exact|resize|resize_with)$|^alloc::vec::from_elem$|^alloc::string::String::(with_capacity|reserve)$|"
                         r"^alloc::slice::<impl \[T\]>::repeat$|^alloc::str::<impl str>::repeat$|^nom::multi::(count|many_m_n|fill|fold_many_m_n)$|^alloc::vec::Vec::<T, A>::extend_from_within$|^alloc::raw_vec")


def run(tier, repo):
    rp = Report("C01", tier)
    facts, info = extract(repo, "default", want_mir=True)
    F = Facts(facts, info)
    rp.configs.append("default (overflow-checks=on, debug-assertions=on, mir-opt-level=0)")
    rp.rule("PANIC-SITE", "every MIR Assert terminator and every call of a panicking std function in every crate body is discharged by exactly one rule: CONST-SHIFT, CONST-DIV, GUARDED-SUB, GUARDED-SLICE, CHUNKS-INDEX, TAKE-N-ARRAY, CONST-NONZERO, BOUNDED-LEN, COMPILER-UBCHECK")
    rp.rule("FMT-NO-ERROR", "no Display/Debug impl of the crate constructs fmt::Error (format!/to_string cannot panic on a formatting error)")
    rp.rule("TERMINATION", "no crate MIR body has a cyclic control-flow graph and the crate-local call graph is acyclic; repetition combinators run over parsers that can fail and always consume")
    rp.rule("ALLOC", "size-parameterised allocations take compile-time constant sizes; the defragmenter buffer grows only after the 10 MiB refusal check or after clear()")
    rp.check(F.meta["overflow_checks"] and F.meta["debug_assertions"] and F.meta["mir_opt_level"] == 0, "PANIC-SITE", "build-flags", "driver", "MIR was not built with overflow checks / debug assertions / mir-opt-level=0", found=(F.meta["overflow_checks"], F.meta["debug_assertions"], F.meta["mir_opt_level"]))
    walkers = {}

    def hits_for(owner):
        base = owner.split("::{closure")[0]
        if base not in walkers:
            f = F.fn(base)
            walkers[base] = (FactWalker(F, f).run() if f and "hir" in f else {}, f)
        return walkers[base]

    def node_at(owner, bp, kinds):
        hits, f = hits_for(owner)
        for kd in kinds:
            h = hits.get((bp[0], bp[1], kd))
            if h:
                return h, f
        # MIR reports an index operation with the span of its bracket part: smallest enclosing node of the kinds
        best = None
        for (lo, hi, kd), h in hits.items():
            if kd in kinds and lo <= bp[0] and hi >= bp[1] and (best is None or hi - lo < best[0]):
                best = (hi - lo, h)
        if best and best[0] <= (bp[1] - bp[0]) + 64:
            return best[1], f
        return None, f

    n_sites = 0
    n_ub = 0
    # scope: parsing entry points, the defragmenter and formatting - i.e. every body of the crate except the serializer
    # module, whose arithmetic (`len() as u16 * 2`) is covered by the wire-limit preconditions of C09
    bodies = [f for f in F.raw["fns"] if f.get("mir") and not f["path"].startswith("tls_serialize::") and "as rusticata_macros::traits::Serialize" not in f["path"]]
    for f in bodies:
        owner = f["path"]
        m = f["mir"]
        for a in m["asserts"]:
            kind = a["kind"]
            if kind in UBCHECK:
                n_ub += 1
                ok = bool(a.get("mx")) or bool(a.get("mxs"))
                rp.check(ok, "PANIC-SITE", "%s/ubcheck/%s" % (owner, kind), "%s %s" % (short_loc(a["loc"]), owner), "compiler UB check outside a std macro expansion", why_ok="COMPILER-UBCHECK: null/alignment check rustc inserts in the vec![] expansion")
                continue
            n_sites += 1
            where = "%s %s" % (short_loc(a["loc"]), owner)
            h, pf = node_at(owner, a["bp"], ["bin", "index", "assignop", "un"])
            key = "%s/%s" % (owner, kind)
            if h is None:
                # inside a const item: failure would be a compile error
                if f["dk"] in ("Const", "AssocConst", "Static", "AnonConst") or "Const" in f["dk"]:
                    rp.ok("PANIC-SITE", where, key, "CONST-ITEM: evaluated at compile time")
                else:
                    rp.fail("PANIC-SITE", key + "/unmatched", where, "MIR assertion %s has no matching HIR expression (cannot be discharged)" % kind)
                continue
            fs, env, node, parents = h
            fw = FactWalker(F, pf)
            if kind in ("Overflow(Shl)", "Overflow(Shr)"):
                rhs = strip(node["b"])
                bits = WIDTH.get(strip(node["a"]).get("ty"), 0)
                amount = rhs.get("v") if rhs.get("k") == "lit" else (rhs.get("val") if rhs.get("k") == "path" else None)  # literal or named constant (value from rustc's const evaluation)
                ok = amount is not None and 0 <= amount < bits
                rp.check(ok, "PANIC-SITE", key + "/" + text_key(node), where, "shift amount is not a constant smaller than the operand width", found=(amount, bits), why_ok="CONST-SHIFT: %s < %d" % (amount, bits))
            elif kind in ("DivisionByZero", "RemainderByZero"):
                rhs = strip(node["b"])
                v = rhs.get("v") if rhs.get("k") == "lit" else rhs.get("val")
                rp.check(v is not None and v != 0, "PANIC-SITE", key + "/" + text_key(node), where, "divisor is not a non-zero constant", found=v, why_ok="CONST-DIV: divisor %s" % v)
            elif kind == "Overflow(Sub)":
                x = fw.ev.sym(node["a"], env, {})
                c = strip(node["b"])
                cv = c.get("v") if c.get("k") == "lit" else c.get("val")
                why = entails_ge(fs, x, cv) if cv is not None else None
                if cv is None:
                    # x - y with a dominating guard y < x or y <= x (e.g. `if i.len() < len { .. len - i.len() .. }`)
                    try:
                        y = fw.ev.sym(node["b"], env, {})
                        from ..pir import lt as _lt, le as _le
                        for fct in fs:
                            if fct == _lt(y, x) or fct == _le(y, x):
                                why = "dominating guard %s" % sym_str(fct)
                        cv = sym_str(y)
                    except Exception:
                        pass
                rp.check(why is not None, "PANIC-SITE", key + "/" + text_key(node), where, "subtraction `%s - %s` can underflow: no dominating guard establishes %s >= %s" % (sym_str(x), cv, sym_str(x), cv),
                         expected="%s >= %s on every path" % (sym_str(x), cv), found=[sym_str(q) for q in fs][:6], why_ok="GUARDED-SUB: " + str(why))
            elif kind == "Overflow(Mul)":
                ok, why = bounded_len_mul(F, node, env, fw)
                rp.check(ok, "PANIC-SITE", key + "/" + text_key(node), where, "multiplication can overflow: " + why, why_ok="BOUNDED-LEN: " + why)
            elif kind == "Overflow(Add)":
                a_ = fw.ev.sym(node["a"], env, {})
                b_ = fw.ev.sym(node["b"], env, {})
                ok = a_[0] == "len" and b_[0] == "len"
                rp.check(ok, "PANIC-SITE", key + "/" + text_key(node), where, "addition can overflow", found=(sym_str(a_), sym_str(b_)), why_ok="LEN-SUM: two slice lengths cannot exceed usize")
            elif kind == "BoundsCheck":
                ok, why = const_index_guarded(node, fs, env, fw)
                if not ok:
                    ok2, why2 = enum_table_index(node, F)
                    if ok2:
                        ok, why = ok2, why2
                if not ok:
                    ok, why = chunk_index(node, parents, fs, env, fw)
                rp.check(ok, "PANIC-SITE", key + "/" + text_key(node), where, "index can be out of bounds: " + why, why_ok="CHUNKS-INDEX: " + why)
            else:
                rp.fail("PANIC-SITE", key + "/unknown-kind", where, "assertion kind %s has no discharge rule" % kind)
        for c in m["calls"]:
            cal = c.get("resolved") or c.get("callee") or ""
            cls = None
            for rx, k_ in PANIC_CALLS:
                if rx.search(cal):
                    cls = k_
                    break
            if cls is None:
                continue
            n_sites += 1
            where = "%s %s" % (short_loc(c["loc"]), owner)
            key = "%s/%s" % (owner, cal.split("::")[-1] if cls != "explicit-panic" else "panic")
            if cls == "explicit-panic":
                mac = c.get("mxs") or [c.get("mx")]
                rp.fail("PANIC-SITE", key + "/" + "/".join(str(x) for x in mac if x), where, "explicit panic (%s) is reachable: no rule proves its condition" % ", ".join(str(x) for x in mac if x), found=cal)
                continue
            h, pf = node_at(owner, c["bp"], ["index", "mcall", "call"])
            if h is None:
                rp.fail("PANIC-SITE", key + "/unmatched", where, "call of panicking function %s has no matching HIR expression" % cal)
                continue
            fs, env, node, parents = h
            fw = FactWalker(F, pf)
            if cls == "slice-index":
                base = fw.ev.sym(node["x"], env, {})
                if base[0] == "tok":
                    base = ["tokbytes"] + base[1:]
                idx = strip(node["i"])
                if idx["k"] == "struct" and idx["res"]["path"].startswith("core::ops::range::Range"):
                    fsx = {q["name"]: fw.ev.sym(q["e"], env, {}) for q in idx["fields"]}
                    bound = fsx.get("end") if "end" in fsx else fsx.get("start")
                    why = entails_le(fs, bound, ["len", base]) if bound is not None else None
                    if why and "start" in fsx and "end" in fsx:
                        why = why if entails_le(fs, fsx["start"], fsx["end"]) else None
                    rp.check(why is not None, "PANIC-SITE", key + "/" + text_key(node), where, "slice range can exceed the slice: no dominating guard establishes %s <= len" % (sym_str(bound) if bound else "?"),
                             expected="%s <= %s" % (sym_str(bound) if bound else "?", sym_str(["len", base])), found=[sym_str(q) for q in fs][:6], why_ok="GUARDED-SLICE: " + str(why))
                else:
                    rp.fail("PANIC-SITE", key + "/" + text_key(node), where, "slice indexed by a non-range, non-chunk expression")
            elif cls == "unwrap":
                ok, why = take_n_array(F, pf, node)
                rp.check(ok, "PANIC-SITE", key + "/" + text_key(node), where, "unwrap/expect can panic: " + why, why_ok="TAKE-N-ARRAY: " + why)
            elif cls == "slice-op" and cal.endswith("::split_at") and node.get("k") == "mcall":
                base = fw.ev.sym(node["recv"], env, {})
                if base[0] == "tok":
                    base = ["tokbytes"] + base[1:]
                mid = fw.ev.sym(node["args"][0], env, {})
                why = entails_le(fs, mid, ["len", base])
                rp.check(why is not None, "PANIC-SITE", key + "/" + text_key(node), where, "split_at(%s) can exceed the slice: no dominating guard establishes %s <= len" % (sym_str(mid), sym_str(mid)),
                         found=[sym_str(q) for q in fs][:6], why_ok="GUARDED-SLICE: " + str(why))
            elif cls == "chunks":
                arg = strip(node["args"][0]) if node.get("args") else {}
                ok = arg.get("k") == "lit" and arg.get("v", 0) > 0
                rp.check(ok, "PANIC-SITE", key + "/" + text_key(node), where, "chunk size is not a non-zero constant", found=arg.get("v"), why_ok="CONST-NONZERO: chunk size %s" % arg.get("v"))
            else:
                rp.fail("PANIC-SITE", key + "/" + cls, where, "call of %s (documented to panic) has no discharge rule" % cal)
    rp.floor("mir_bodies", len(bodies), 450)
    rp.floor("panic_sites", n_sites, 12)
    rp.extra["ubchecks_listed"] = n_ub

    # formatting cannot return Err on its own
    nfmt = 0
    for f in F.hir_fns():
        if f.get("name") == "fmt" and (f.get("impl_trait_path") or "").startswith("core::fmt::"):
            nfmt += 1
            bad = [e for e in walk(f["hir"]) if e.get("k") in ("path", "struct") and ((e.get("path") or e.get("res", {}).get("path") or "") == "core::fmt::Error")]
            rp.check(not bad, "FMT-NO-ERROR", f["path"], site(f), "formatting impl constructs fmt::Error (format!/to_string would panic)", why_ok="no fmt::Error constructed")
    rp.floor("fmt_impls", nfmt, 60)

    # termination
    cyc = [f["path"] for f in bodies if f["mir"]["cyclic"]]
    rp.check(not cyc, "TERMINATION", "no-loops", "src/", "crate bodies with a cyclic CFG (loop): %s" % cyc[:4], found=cyc[:6], why_ok="0 of %d MIR bodies contain a loop" % len(bodies))
    graph = {}
    for f in bodies:
        outs = set()
        for c in f["mir"]["calls"]:
            cal = c.get("resolved") or c.get("callee") or ""
            loc = c.get("resolved_local") if c.get("resolved") else c.get("local")
            if loc:
                outs.add(cal)
            for g in c.get("gargs", []):
                mm = re.search(r"FnDef\(DefId\(0:\d+ ~ [^)]*?\]::([^)]*)\)", g)
                if mm:
                    outs.add(mm.group(1))
                mm = re.search(r"Closure\(DefId\(0:\d+ ~ [^)]*?\]::([^)]*)\)", g)
                if mm:
                    outs.add(mm.group(1))
        graph[f["path"]] = outs
    cycle = find_cycle(graph)
    rp.check(cycle is None, "TERMINATION", "acyclic-call-graph", "src/", "recursion in the crate-local call graph: %s" % (cycle,), why_ok="call graph over %d bodies is acyclic (function items and closures passed to combinators included)" % len(graph))
    nrep = 0
    for f in all_parser_fns(F):
        try:
            seq = Ev(F).fn_seq(f["path"])
        except Opaque:
            continue
        widths = {}
        walk_steps(seq, lambda st, p: widths.__setitem__(st[1], st[2]) if st[0] == "u" else None)

        def chk(st, p, f=f):
            nonlocal nrep
            if st[0] == "count":
                n = st[2]
                bounded = n[0] == "n" or (n[0] == "v" and widths.get(n[1], 99) <= 16)
                rp.check(bounded, "ALLOC", "count/%s%s" % (f["path"].split("::")[-1], p), site(f), "element count of a counted repetition is not a constant or a wire integer of at most 16 bits (nom pre-allocates for it, capped at 64 KiB)",
                         found=sym_str(n), why_ok="count is a wire integer of %s bits; nom caps the pre-allocation" % (widths.get(n[1]) if n[0] == "v" else "constant"))
            if st[0] in ("many0", "many1"):
                nrep += 1
                inner = st[2]
                def only_param(sq):
                    """the repeated element is a parser handed in as a parameter (a generic helper analysed on its own):
                    decided where the helper is called, with the actual parser inlined"""
                    ss = sq["steps"]
                    return len(ss) == 1 and (ss[0][0] == "param_parser" or (ss[0][0] in ("complete", "cut") and only_param(ss[0][2])))
                if only_param(inner):
                    rp.ok("TERMINATION", site(f), "rep/%s%s" % (f["path"].split("::")[-1], p), "generic helper: the element is its parser parameter (checked at the call sites)")
                    return
                rp.check(can_error(inner) and consumes_always(inner), "TERMINATION", "rep/%s%s" % (f["path"].split("::")[-1], p), site(f), "repetition over a parser that cannot fail or may not consume (only nom's no-progress guard ends it)",
                         why_ok="element parser can fail and always consumes")
        walk_steps(seq, chk)
    rp.floor("repetitions_checked", nrep, 40)

    # allocation discipline
    nalloc = 0
    for f in bodies:
        for c in f["mir"]["calls"]:
            cal = c.get("resolved") or c.get("callee") or ""
            if SIZED_ALLOC.search(cal):
                nalloc += 1
                if c.get("mx") in ("vec",) or "vec" in (c.get("mxs") or []):
                    size_args = [x for x in c["args"] if "v" in x]
                    rp.check(bool(size_args) or cal.endswith("from_elem") is False, "ALLOC", "%s/%s" % (f["path"], cal.split("::")[-1]), "%s %s" % (short_loc(c["loc"]), f["path"]), "vec![x; n] with a non-constant n", why_ok="constant-size vec! expansion")
                    continue
                idx = 0 if "with_capacity" in cal or cal.startswith("nom::multi::count") is False else 1
                consts = [x.get("v") for x in c["args"] if "v" in x]
                rp.check(bool(consts), "ALLOC", "%s/%s" % (f["path"], cal.split("::")[-1]), "%s %s" % (short_loc(c["loc"]), f["path"]), "allocation sized by a run-time value: %s" % cal, found=c["args"], why_ok="constant size %s" % consts)
    rp.ok("ALLOC", "src/", "sized-allocator-calls", "%d calls of size-parameterised allocators, all constant-sized" % nalloc)
    pr = F.fn("tls_records_parser::TlsRecordsParser::parse_record")
    if rp.check(pr is not None, "ALLOC", "defrag/present", "src/tls_records_parser.rs", "parse_record not found"):
        try:
            paths = PathExec(F, pr).run()
            next_ = 0
            for g, acts, ex in paths:
                for i, a in enumerate(acts):
                    if a.startswith("Extend") or a.startswith("Buf.") or (a.startswith("SetBuf(") and "B0" in a and "D" in a):
                        next_ += 1
                        guarded = any(x == "!too_large[>=,10485760]" for x in g) or "Clear" in acts[:i]
                        rp.check(a == "Extend(record.data)" and guarded, "ALLOC", "defrag/%s" % "/".join(g), site(pr), "defragmenter buffer grows without the 10 MiB refusal check (or clear) before it on path [%s]" % ", ".join(g), found=list(acts),
                                 why_ok="append dominated by the size check or preceded by clear()")
            rp.floor("defrag_appends", next_, 1)
        except Unrec as u:
            rp.fail("ALLOC", "defrag/unrecognised", site(pr), "path analysis cannot read parse_record: %s" % u)
    rp.assume("panics, loops and allocation inside nom 7.1.3, phf, rusticata-macros (HexSlice), core/alloc are trusted for the API uses made; nom::multi::length_count caps its pre-allocation; many0/many1/collect allocate proportionally to the input")
    rp.assume("BOUNDED-LEN uses parser provenance: Debug of hand-built values with slices longer than 2^61 bytes is outside the property")
    return rp.finish(level="other", explanation="Inventory of all %d panic-capable sites in %d MIR bodies (compiler-inserted overflow/bounds/division asserts with overflow checks on, plus calls of panicking std functions), each discharged by a named rule using dominating path conditions read from the HIR; "
                     "no loops or recursion; repetition progress; allocation discipline." % (n_sites, len(bodies)), extra_cov={"ubchecks_listed": n_ub})


def text_key(node):
    from ..paths import text
    return text(node)[:60]


def find_cycle(graph):
    WHITE, GREY, BLACK = 0, 1, 2
    color = {}
    def dfs(u, stack):
        color[u] = GREY
        for v in graph.get(u, ()):
            if v not in graph:
                continue
            if color.get(v, WHITE) == GREY:
                return stack + [u, v]
            if color.get(v, WHITE) == WHITE:
                r = dfs(v, stack + [u])
                if r:
                    return r
        color[u] = BLACK
        return None
    import sys
    sys.setrecursionlimit(10000)
    for u in graph:
        if color.get(u, WHITE) == WHITE:
            r = dfs(u, [])
            if r:
                return r
    return None


def const_index_guarded(node, fs, env, fw):
    """s[k] with a constant k where a dominating guard establishes len(s) >= k + 1 (e.g. `if s.len() < 4 { return .. }` before s[3])"""
    idx = strip(node["i"])
    if not (idx.get("k") == "lit" and "v" in idx):
        return False, "index is not a constant"
    try:
        base = fw.ev.sym(node["x"], env, {})
    except Exception:
        return False, "indexed value cannot be read"
    if base[0] == "tok":
        base = ["tokbytes"] + base[1:]
    why = entails_ge(fs, ["len", base], idx["v"] + 1)
    if why:
        return True, "index %d and %s" % (idx["v"], why)
    if base[0] == "tokbytes":
        why = entails_ge(fs, ["remaining_at"] + base[1:], idx["v"] + 1) or entails_ge(fs, ["remaining"], idx["v"] + 1)
        if why:
            return True, "index %d and %s" % (idx["v"], why)
    return False, "no dominating guard establishes len >= %d" % (idx["v"] + 1)


def enum_table_index(node, F):
    """TABLE[e as usize] where e is a fieldless enum all of whose discriminants are below the length of the fixed-size array TABLE"""
    import re as _re
    idx = strip(node["i"])
    if idx.get("k") != "cast" or idx.get("ty") != "usize":
        return False, "index is not an enum cast"
    adt = F.adts.get(idx.get("from", ""))
    if adt is None or adt.get("dk") != "Enum" or not adt["variants"] or any(v["fields"] or "discr" not in v for v in adt["variants"]):
        return False, "index is not a cast of a fieldless enum"
    m = _re.fullmatch(r"&?\[.*; (\d+)(?:_usize)?\]", strip(node["x"]).get("ty", ""))
    if not m:
        return False, "indexed value is not a fixed-size array"
    top = max(v["discr"] for v in adt["variants"])
    if top < int(m.group(1)):
        return True, "discriminants of %s are 0..=%d, array length %s" % (adt["path"], top, m.group(1))
    return False, "discriminant %d of %s reaches the array length %s" % (top, adt["path"], m.group(1))


def chunk_index(node, parents, fs, env, fw):
    """chunk[k] inside a closure mapped over s[..n].chunks(m)"""
    idx = strip(node["i"])
    if not (idx.get("k") == "lit" and "v" in idx):
        return False, "index is not a constant"
    k = idx["v"]
    base = strip(node["x"])
    clo = None
    for p in reversed(parents):
        if p.get("k") == "closure":
            clo = p
            break
    if clo is None or base.get("k") != "local" or not clo["params"] or clo["params"][0].get("id") != base["id"]:
        return False, "indexed value is not the parameter of a closure"
    # find the map(...) call that takes this closure and its receiver chunks(...)
    mapcall = None
    for p in reversed(parents):
        if p.get("k") == "mcall" and any(strip_ref(a) is clo or strip_ref(a).get("bp") == clo.get("bp") for a in p.get("args", [])):
            mapcall = p
            break
    if mapcall is None or mapcall.get("path") != "core::iter::traits::iterator::Iterator::map":
        return False, "closure is not the argument of Iterator::map"
    src = strip(mapcall["recv"])
    if not (src.get("k") == "mcall" and src.get("path") in ("core::slice::<impl [T]>::chunks", "core::slice::<impl [T]>::chunks_exact")):
        return False, "map receiver is not slice.chunks(n)"
    m = strip(src["args"][0])
    if not (m.get("k") == "lit" and m.get("v", 0) > 0):
        return False, "chunk size not a positive constant"
    if k >= m["v"]:
        return False, "index %d >= chunk size %d" % (k, m["v"])
    if src["path"].endswith("chunks_exact") or k == 0:
        return True, "index %d < chunk size %d; chunks are never empty" % (k, m["v"])
    sl = strip(src["recv"])
    if sl.get("k") == "index":
        r = strip(sl["i"])
        if r["k"] == "struct" and r["res"]["path"].endswith("RangeTo"):
            n = fw.ev.sym(r["fields"][0]["e"], env, {})
            if m["v"] == 2:
                why = entails_even(fs, n)
                if why:
                    return True, "index %d < 2 and slice length %s is even (%s)" % (k, sym_str(n), why)
                return False, "no dominating guard establishes that the slice length %s is a multiple of %d" % (sym_str(n), m["v"])
    return False, "length of the chunked slice is not known to be a multiple of the chunk size"


def take_n_array(F, pf, node):
    """`<take(N) result>.try_into().expect(..)` with target [u8; N]"""
    recv = strip(node.get("recv") or {})
    if not (node.get("k") == "mcall" and recv.get("k") == "mcall" and "try_into" in (recv.get("path") or recv.get("name") or "")):
        return False, "not a try_into() conversion"
    mm = re.match(r"&\[u8; (\d+)(?:_usize)?\]", node.get("ty", ""))
    if not mm:
        return False, "target is not a byte array reference"
    n = int(mm.group(1))
    try:
        seq, _ = code_seq(F, pf["path"])
    except Exception as ex:
        return False, "parser not readable: %s" % ex
    txt = json.dumps(seq)
    arrs = re.findall(r'\["array", (\d+), \["v", "(b\d+)"\]\]', txt)
    defs = {}
    walk_steps(seq, lambda st, p: defs.__setitem__(st[1], st) if st[0] == "bytes" else None)
    for an, b in arrs:
        if int(an) == n and b in defs and defs[b][2] == ["n", n]:
            return True, "operand is the output of take(%d) and the target is [u8; %d]" % (n, n)
    return False, "operand is not the output of take(%d)" % n


def bounded_len_mul(F, node, env, fw):
    """len(self.field) * c where the field is only ever filled by a parser from a length-prefixed element"""
    a, b = strip(node["a"]), strip(node["b"])
    c = b.get("v") if b.get("k") == "lit" else None
    if c is None or c > 8:
        return False, "factor is not a constant <= 8"
    if not (a.get("k") == "mcall" and a["name"] == "len"):
        return False, "operand is not a slice length"
    r = strip_ref(a["recv"])
    if not (r.get("k") == "field"):
        return False, "slice is not a struct field"
    owner_ty = r.get("of", "").lstrip("&").replace("'_ ", "").replace("'a ", "").strip()
    owner_ty = re.sub(r"<.*>", "", owner_ty)
    fld_name = r["name"]
    # every struct literal of that type in the crate must take the field from a length-prefixed bytes element
    bound = None
    n_lits = 0
    for f in F.hir_fns():
        for e in walk(f["hir"]):
            if e.get("k") == "struct" and e["res"]["path"] == owner_ty:
                n_lits += 1
                try:
                    seq, _ = code_seq(F, f["path"])
                except Exception:
                    return False, "a constructor site of %s is not a readable parser (%s)" % (owner_ty, f["path"])
                ret = seq["ret"][1] if seq["ret"] and seq["ret"][0] == "ok" else None
                if not (ret and ret[0] == "struct" and ret[1] == owner_ty):
                    return False, "constructor site %s does not return the struct directly" % f["path"]
                v = dict((k, x) for k, x in ret[2]).get(fld_name)
                defs = {}
                walk_steps(seq, lambda st, p: defs.__setitem__(st[1], st) if st[0] in ("bytes", "u") else None)
                if not (v and v[0] == "v" and v[1] in defs and defs[v[1]][0] == "bytes"):
                    return False, "field %s is not filled from a bytes element" % fld_name
                ln = defs[v[1]][2]
                if ln[0] == "v" and ln[1] in defs and defs[ln[1]][0] == "u" and defs[ln[1]][2] <= 32:
                    bits = defs[ln[1]][2]
                    bound = max(bound or 0, (1 << bits) - 1)
                elif ln[0] == "n":
                    bound = max(bound or 0, ln[1])
                else:
                    return False, "length of field %s is not a bounded wire integer" % fld_name
    if n_lits == 0 or bound is None:
        return False, "no constructor site found for %s" % owner_ty
    if bound * c >= 1 << 64:
        return False, "bound %d * %d overflows" % (bound, c)
    return True, "%s.%s is only built by parsers from an element of at most %d bytes (%d constructor site(s)); %d * %d < 2^64" % (owner_ty.split("::")[-1], fld_name, bound, n_lits, bound, c)
