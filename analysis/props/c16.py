"""C16 - multi-record parsers."""
from ..gcommon import *
from ..grammar_check import code_seq
from ..core import strip, path_of


def has_failure(seq):
    found = []
    def chk(st, p):
        if st[0] == "cut":
            found.append(p + ":cut")
        for x in st:
            if isinstance(x, dict):
                pass
    walk_steps(seq, chk)
    import json
    if '"Failure"' in json.dumps(seq):
        found.append("Err::Failure constructed")
    return found


def run(tier, repo):
    rp = Report("C16", tier)
    F = load(repo)
    rp.configs.append("default")
    # C16 is about the repetition wrapper and the alias; what one record looks like is C02/C03/C10's business, so the
    # sequences are extracted but compared with the crate's own single-record parser, not with the reference grammar
    res = {}
    for path, _spec in entries("C16"):
        try:
            cs, ev = code_seq(F, path)
            res[path] = {"code": cs}
            rp.functions.update(ev.called)
        except KeyError:
            rp.fail("MANY1-COMPLETE", path.split("::")[-1] + "/missing", path, "function %s not found" % path)
        except Opaque as o:
            rp.fail("MANY1-COMPLETE", path.split("::")[-1] + "/unrecognised", path, "construct the analysis cannot read: %s" % o)
    rp.rule("MANY1-COMPLETE", "tls_parser_many / parse_dtls_plaintext_records = many1(complete(single-record parser)) applied to the whole input")
    rp.rule("NO-FAILURE", "the single-record parsers never produce Err::Failure (so only the first record's failure can fail the whole)")
    rp.rule("ALIAS", "tls_parser passes its argument to parse_tls_plaintext and returns the result unchanged")
    for many, single in (("tls_record::tls_parser_many", "tls_record::parse_tls_plaintext"), ("dtls::parse_dtls_plaintext_records", "dtls::parse_dtls_plaintext_record")):
        r = res.get(many)
        f = F.fn(many)
        if not (r and "code" in r and f):
            continue
        st = r["code"]["steps"]
        ok = len(st) == 1 and st[0][0] == "many1" and len(st[0][2]["steps"]) == 1 and st[0][2]["steps"][0][0] == "complete" and r["code"]["ret"] == ["ok", ["v", st[0][1]]]
        rp.check(ok, "MANY1-COMPLETE", many.split("::")[-1], site(f), "not many1(complete(record)) over the whole input", found=[x[0] for x in st])
        if ok:
            from .c03 import shape
            inner = st[0][2]["steps"][0][2]
            one, _ = code_seq(F, single)
            rp.check(shape(inner) == shape(one), "MANY1-COMPLETE", many.split("::")[-1] + "/element", site(f), "repeated element is not the single-record parser %s" % single)
            fl = has_failure(inner)
            rp.check(not fl, "NO-FAILURE", single.split("::")[-1], site(F.fn(single)), "single-record parser can return Err::Failure, which aborts the multi-record parser after earlier records succeeded: %s" % fl, found=fl)
            repetition_progress(rp, r["code"], many.split("::")[-1], site(f))
    f = F.fn("tls_record::tls_parser")
    if f:
        body = strip(f["hir"])
        ok = body["k"] == "call" and path_of(body["f"]) == "tls_record::parse_tls_plaintext" and len(body["args"]) == 1 and strip(body["args"][0]).get("k") == "local" and strip(body["args"][0])["id"] == f["params"][0].get("id")
        rp.check(ok, "ALIAS", "tls_parser", site(f), "tls_parser is not a direct call of parse_tls_plaintext on its argument", found=body["k"])
    else:
        rp.fail("ALIAS", "tls_parser/missing", "src/tls_record.rs", "deprecated alias tls_parser not found")
    rp.floor("grammar_functions", len(res), 3)
    rp.assume("nom 7.1.3 many1: first element's Err::Error fails the whole; later Err::Error ends the repetition with the remainder at that element; Failure/Incomplete propagate (complete() removes Incomplete)")
    return rp.finish(level="other", explanation="Static shape check: the multi-record parsers are many1(complete(.)) of exactly the single-record grammar, the single-record grammar cannot produce Err::Failure, the alias is a direct call.")
