"""C02 - TLS record framing."""
from ..gcommon import *
from ..pir import N

MAX = (1 << 14) + 256
FNS = ["tls_record::parse_tls_plaintext", "tls_record::parse_tls_encrypted", "tls_record::parse_tls_raw_record"]


def cap_rule(rp, name, seq, s, len_index=2):
    """CAP-GUARD: directly after the header (no consumption in between) reject len > 2^14+256 with TooLarge."""
    steps = seq["steps"]
    hdr = steps[:len_index + 1]
    ok_hdr = len(hdr) == len_index + 1 and all(st[0] == "u" for st in hdr)
    g = steps[len_index + 1] if len(steps) > len_index + 1 else None
    lenb = hdr[len_index][1] if ok_hdr else None
    if not (ok_hdr and g and g[0] == "guard"):
        rp.fail("CAP-GUARD", name + "/placement", s, "the length cap is not checked immediately after the header (before any further consumption)",
                expected="guard right after the length field", found=str(g)[:200])
        return
    cond = g[1]
    # single-variable predicate over the u16 length: must be true exactly for values > 16640
    want = 65535 - MAX
    good = cond[0] == "tt" and cond[1] == lenb and cond[2] == 16 and cond[3] == want
    if good:
        # count alone could be matched by another predicate with the same cardinality: compare hash with reference predicate
        import hashlib
        ref = hashlib.sha1(bytes(1 if x > MAX else 0 for x in range(65536))).hexdigest()[:12]
        good = cond[4] == ref
    rp.check(good, "CAP-GUARD", name + "/predicate", s, "length cap predicate is not `len > 16640` over all 65536 lengths", expected="rejects exactly 16641..65535",
             found=cond, why_ok="rejects exactly the %d lengths above 2^14+256" % want)
    rp.check(g[2] == "TooLarge", "CAP-GUARD", name + "/kind", s, "oversize length is not reported as ErrorKind::TooLarge", expected="TooLarge", found=g[2])
    nxt = steps[len_index + 2] if len(steps) > len_index + 2 else None
    rp.check(nxt is not None and nxt[0] == "bytes" and nxt[2] == ["v", lenb] and nxt[3] == "S", "TAKE-LEN", name, s,
             "payload is not `streaming take(len)` of the header's length field", expected="bytes(len) streaming", found=str(nxt)[:200],
             why_ok="payload = streaming take of the zero-extended u16 length field")


def run(tier, repo):
    rp = Report("C02", tier)
    F = load(repo)
    rp.configs.append("default")
    res = grammar_rules(rp, F, "C02")
    rp.rule("CAP-GUARD", "first element after the 5-byte header is a guard over the u16 length whose truth table over all 65536 values is exactly len > 16640, kind TooLarge")
    rp.rule("TAKE-LEN", "payload = streaming take(len) directly after the guard; remainder is that take's remainder")
    rp.rule("NO-INCOMPLETE-INSIDE", "inside the payload region of parse_tls_plaintext no parser can answer Incomplete (every streaming leaf is under complete())")
    rp.rule("HDR-SIBLINGS", "the three record parsers decode the header with identical steps")
    hdrs = {}
    for p in FNS:
        r = res.get(p)
        f = F.fn(p)
        if not r or "code" not in r:
            continue
        s = site(f, p)
        name = p.split("::")[-1]
        cap_rule(rp, name, r["code"], s)
        hdrs[name] = [st[2:] for st in r["code"]["steps"][:3]]
    vals = list(hdrs.values())
    rp.check(len(vals) == 3 and all(v == vals[0] for v in vals) and vals[0] == [[8, "be", "S"], [16, "be", "S"], [16, "be", "S"]], "HDR-SIBLINGS", "header", "src/tls_record.rs",
             "record parsers disagree on the header layout (u8, u16 BE, u16 BE, streaming)", found=hdrs, why_ok="u8,u16be,u16be streaming in all three")
    r = res.get("tls_record::parse_tls_plaintext")
    if r and "code" in r:
        subs = [st for st in r.get("full_code", r["code"])["steps"] if st[0] == "sub"]
        f = F.fn("tls_record::parse_tls_plaintext")
        if rp.check(len(subs) == 1, "NO-INCOMPLETE-INSIDE", "region", site(f), "payload region (map_parser(take(len), ..)) not found"):
            sites = incomplete_sites(subs[0][3])
            rp.check(not sites, "NO-INCOMPLETE-INSIDE", "parse_tls_plaintext/payload", site(f),
                     "a parser inside the record payload can answer Incomplete although the whole record is present: %s" % sites[:5], found=sites[:10],
                     why_ok="all streaming leaves of the content parsers are under complete()")
    rp.floor("grammar_functions", len(res), 4)
    rp.assume("nom 7.1.3: streaming take/be_uN return Incomplete(Needed::new(missing)) exactly when the input is shorter than requested; map_parser confines the inner parser to the taken slice; complete() maps Incomplete to Error")
    rp.assume("nom-derive 0.10.1 primitive Parse impls are streaming big-endian number parsers")
    return rp.finish(level="other", explanation="Static grammar extraction from the HIR of the three record parsers (callees inlined down to nom primitives resolved by def-path) compared with the RFC 5246 record grammar, "
                     "plus explicit cap-guard / take / no-Incomplete-inside rules. Decides header layout, cap predicate (tabulated over all 65536 lengths by the checker), exact-length take and the 'only if' half of Incomplete-iff-prefix; "
                     "the 'if' half and the Needed arithmetic are nom's streaming contract (trusted).")
