"""Path summaries of the (loop-free) record defragmenter methods, read from the HIR.

Each entry->exit path is abstracted to (guards, actions, exit):
  guards : tuple of guard classes taken, e.g. "in_progress", "!in_progress", "type in {Alert,CCS}", "type_mismatch",
           "too_large[>=,10485760,saturating]", "parse(data)=Ok", "parse(buf)=Err(Error,Complete)" ...
  actions: ordered effects on self and parser invocations: "SetType(Some(record.type))", "SetType(None)", "Clear", "Extend(record.data)",
           "Parse(data)", "Parse(buf)", "ResetDefault", "Other(..)"
  exit   : "Ok(pass)", "Incomplete", "Error(K)", "Failure(K)", "Pass(result)", "Delegate(nocopy)", "Value(..)", "Panic", "Other(..)"
"""
from .core import strip, strip_ref, path_of, is_try, walk

OUTCOMES = [("Ok",), ("Err", ("Incomplete",)), ("Err", ("Error", "Complete")), ("Err", ("Failure", "Complete")), ("Err", ("Error", "other")), ("Err", ("Failure", "other"))]


def oc_str(o):
    if o == ("Ok",):
        return "Ok"
    if o[1] == ("Incomplete",):
        return "Incomplete"
    return "Err(%s,%s)" % (o[1][0], o[1][1])


class Unrec(Exception):
    pass


def text(e):
    """compact rendering of an expression for messages/keys (no positions)"""
    e = strip(e)
    if e is None:
        return "()"
    k = e["k"]
    if k == "local":
        return e["name"]
    if k == "path":
        return (e.get("resolved") or e["path"]).split("::")[-1] + ("=%d" % e["val"] if "val" in e else "")
    if k == "lit":
        return str(e.get("v", e.get("b", e.get("s", e.get("bytes")))))
    if k == "field":
        return text(e["x"]) + "." + e["name"]
    if k == "mcall":
        return "%s.%s(%s)" % (text(e["recv"]), e["name"], ",".join(text(a) for a in e["args"]))
    if k == "call":
        return "%s(%s)" % (text(e["f"]), ",".join(text(a) for a in e["args"]))
    if k == "bin":
        return "(%s %s %s)" % (text(e["a"]), e["op"], text(e["b"]))
    if k == "un":
        return e["op"] + text(e["a"])
    if k == "addrof":
        return "&" + text(e["x"])
    if k == "cast":
        return "(%s as %s)" % (text(e["x"]), e["ty"])
    if k == "struct":
        return "%s{%s%s}" % (e["res"]["path"].split("::")[-1], ",".join("%s:%s" % (f["name"], text(f["e"])) for f in e["fields"]), (",.." + text(e["base"])) if e.get("base") else "")
    if k == "tup":
        return "(%s)" % ",".join(text(x) for x in e["xs"])
    if k == "array":
        return "[%s]" % ",".join(text(x) for x in e["xs"])
    if k == "ret":
        return "return " + text(e["x"])
    return "<%s>" % k


def is_self_field(e, name):
    e = strip_ref(e)
    return e.get("k") == "field" and e["name"] == name and strip_ref(e["x"]).get("k") == "local" and strip_ref(e["x"])["name"] == "self"


def is_record_data(e, env):
    e = strip_ref(e)
    return e.get("k") == "field" and e["name"] == "data" and strip_ref(e["x"]).get("k") == "local" and strip_ref(e["x"])["name"] == "record"


def is_record_type(e, env):
    e = strip_ref(e)
    if e.get("k") == "local" and env.get(e["id"]) == "record.type":
        return True
    return e.get("k") == "field" and e["name"] == "record_type" and text(e["x"]) == "record.hdr"


class PathExec:
    """(guards, actions, exit) summaries of a TlsRecordsParser method, from the semantic interpreter (analysis/defrag_sem.py)"""
    def __init__(self, F, f):
        self.F, self.f = F, f

    def run(self):
        from .defrag_sem import SemExec, Unrec as SUnrec
        try:
            return [(g, a, ex) for g, a, ex, _ty, _buf in SemExec(self.F, self.f).run()]
        except SUnrec as u:
            raise Unrec(str(u))
