"""Path summaries of the (loop-free) record defragmenter methods, read from the HIR.

Each entry->exit path is abstracted to (guards, actions, exit):
  guards : tuple of guard classes taken, e.g. "in_progress", "!in_progress", "type in {Alert,CCS}", "type_mismatch",
           "too_large[>=,10485760,saturating]", "parse(data)=Ok", "parse(buf)=Err(Error,Complete)" ...
  actions: ordered effects on self and parser invocations: "SetType(Some(record.type))", "SetType(None)", "Clear", "Extend(record.data)",
           "Parse(data)", "Parse(buf)", "ResetDefault", "Other(..)"
  exit   : "Ok(pass)", "Incomplete", "Error(K)", "Failure(K)", "Pass(result)", "Delegate(nocopy)", "Value(..)", "Panic", "Other(..)"
"""
from .core import strip, strip_ref, path_of, is_try, walk

OUTCOMES = [("Ok",), ("Err", ("Incomplete",)), ("Err", ("Error", "Complete")), ("Err", ("Failure", "Complete")), ("Err", ("Error", "other")), ("Err", ("Failure", "other"))]


def oc_str(o):
    if o == ("Ok",):
        return "Ok"
    if o[1] == ("Incomplete",):
        return "Incomplete"
    return "Err(%s,%s)" % (o[1][0], o[1][1])


class Unrec(Exception):
    pass


def text(e):
    """compact rendering of an expression for messages/keys (no positions)"""
    e = strip(e)
    if e is None:
        return "()"
    k = e["k"]
    if k == "local":
        return e["name"]
    if k == "path":
        return (e.get("resolved") or e["path"]).split("::")[-1] + ("=%d" % e["val"] if "val" in e else "")
    if k == "lit":
        return str(e.get("v", e.get("b", e.get("s", e.get("bytes")))))
    if k == "field":
        return text(e["x"]) + "." + e["name"]
    if k == "mcall":
        return "%s.%s(%s)" % (text(e["recv"]), e["name"], ",".join(text(a) for a in e["args"]))
    if k == "call":
        return "%s(%s)" % (text(e["f"]), ",".join(text(a) for a in e["args"]))
    if k == "bin":
        return "(%s %s %s)" % (text(e["a"]), e["op"], text(e["b"]))
    if k == "un":
        return e["op"] + text(e["a"])
    if k == "addrof":
        return "&" + text(e["x"])
    if k == "cast":
        return "(%s as %s)" % (text(e["x"]), e["ty"])
    if k == "struct":
        return "%s{%s%s}" % (e["res"]["path"].split("::")[-1], ",".join("%s:%s" % (f["name"], text(f["e"])) for f in e["fields"]), (",.." + text(e["base"])) if e.get("base") else "")
    if k == "tup":
        return "(%s)" % ",".join(text(x) for x in e["xs"])
    if k == "array":
        return "[%s]" % ",".join(text(x) for x in e["xs"])
    if k == "ret":
        return "return " + text(e["x"])
    return "<%s>" % k


def is_self_field(e, name):
    e = strip_ref(e)
    return e.get("k") == "field" and e["name"] == name and strip_ref(e["x"]).get("k") == "local" and strip_ref(e["x"])["name"] == "self"


def is_record_data(e, env):
    e = strip_ref(e)
    return e.get("k") == "field" and e["name"] == "data" and strip_ref(e["x"]).get("k") == "local" and strip_ref(e["x"])["name"] == "record"


def is_record_type(e, env):
    e = strip_ref(e)
    if e.get("k") == "local" and env.get(e["id"]) == "record.type":
        return True
    return e.get("k") == "field" and e["name"] == "record_type" and text(e["x"]) == "record.hdr"


class PathExec:
    def __init__(self, F, f):
        self.F = F
        self.f = f
        self.paths = []

    def run(self):
        body = strip(self.f["hir"])
        self.block(body, {}, (), (), None)
        return self.paths

    # cont: list of (stmts, tail, env) frames to continue with when a block falls through
    def finish(self, guards, actions, exit_):
        self.paths.append((guards, actions, exit_))

    def block(self, blk, env, guards, actions, cont):
        blk = strip(blk)
        if blk["k"] != "block":
            return self.tail(blk, env, guards, actions, cont)
        self.stmts(blk["stmts"], 0, blk["expr"], dict(env), guards, actions, cont)

    def stmts(self, stmts, i, tail, env, guards, actions, cont):
        while i < len(stmts):
            s = stmts[i]
            i += 1
            if s["k"] == "item":
                continue
            if s["k"] == "let":
                init = strip(s["init"]) if s.get("init") else None
                p = s["pat"]
                if p["k"] == "bind" and init is not None:
                    if is_record_type(init, env):
                        env[p["id"]] = "record.type"
                    elif init["k"] == "struct" and init["res"]["path"] == "tls_record::TlsRecordHeader":
                        env[p["id"]] = self.pseudo_header(init)
                    else:
                        env[p["id"]] = ("hir", init)
                    continue
                actions = actions + ("Other(let %s)" % text(init),)
                continue
            e = strip(s["e"])
            rest = (stmts, i, tail, env)
            k = e["k"]
            if k == "ret":
                return self.exit(e["x"], env, guards, actions)
            if k == "if":
                return self.if_(e, env, guards, actions, rest, cont)
            if k == "match" and is_try(e) is None:
                return self.match(e, env, guards, actions, rest, cont, as_value=False)
            a = self.action(e, env)
            actions = actions + (a,)
        if tail is None:
            return self.resume(env, guards, actions, cont)
        return self.tail(tail, env, guards, actions, cont)

    def resume(self, env, guards, actions, cont):
        if not cont:
            return self.finish(guards, actions, "Value(())")
        (stmts, i, tail, env2), cont2 = cont[0], cont[1:]
        return self.stmts(stmts, i, tail, env2, guards, actions, cont2 or None)

    def tail(self, e, env, guards, actions, cont):
        e = strip(e)
        k = e["k"]
        if k == "ret":
            return self.exit(e["x"], env, guards, actions)
        if k == "if":
            return self.if_(e, env, guards, actions, None, cont, tail=True)
        if k == "match" and is_try(e) is None:
            return self.match(e, env, guards, actions, None, cont, as_value=True)
        if k == "block":
            return self.block(e, env, guards, actions, cont)
        if k == "tup" and not e["xs"]:
            return self.resume(env, guards, actions, cont)
        if cont:
            # value of an inner block that is not the function result: unit-valued statements only
            return self.resume(env, guards, actions + (self.action(e, env),), cont)
        return self.exit(e, env, guards, actions)

    def if_(self, e, env, guards, actions, rest, cont, tail=False):
        pos, neg = self.cond(e["c"], env)
        newcont = ([rest] if rest else []) + list(cont or [])
        self.block(e["t"], env, guards + (pos,), actions, newcont or None)
        if e.get("f") is not None:
            self.block(e["f"], env, guards + (neg,), actions, newcont or None)
        else:
            self.resume(env, guards + (neg,), actions, newcont or None)

    def match(self, e, env, guards, actions, rest, cont, as_value):
        sc = strip(e["scrut"])
        kind = self.parse_kind(sc, env)
        if kind is None:
            return self.finish(guards, actions + ("Other(match %s)" % text(sc),), "Other(unrecognised match)")
        actions = actions + ("Parse(%s)" % kind,)
        newcont = ([rest] if rest else []) + list(cont or [])
        for oc in OUTCOMES:
            chosen = None
            for arm in e["arms"]:
                env2 = dict(env)
                if self.pmatch(arm["pat"], oc, env2):
                    if arm.get("guard") is not None and not self.guard(arm["guard"], env2):
                        continue
                    chosen = (arm, env2)
                    break
            g = guards + ("parse(%s)=%s" % (kind, oc_str(oc)),)
            if chosen is None:
                self.finish(g, actions, "Other(no arm)")
                continue
            arm, env2 = chosen
            self.block(arm["body"], env2, g, actions, newcont or None)

    # ---- abstractions
    def parse_kind(self, sc, env):
        if sc["k"] == "call" and path_of(sc["f"]) == "tls_record::parse_tls_record_with_header" and len(sc["args"]) == 2:
            a0, a1 = sc["args"]
            if is_record_data(a0, env) and text(strip_ref(a1)) == "record.hdr":
                return "data"
            if is_self_field(a0, "record_defrag_buffer"):
                h = strip_ref(a1)
                hv = env.get(h.get("id")) if h.get("k") == "local" else None
                if not isinstance(hv, str):
                    hv = None
                if hv == "pseudo_header(len=buf.len,..record.hdr)":
                    return "buf"
                return "buf,hdr=%s" % (hv or text(a1))
            return "%s,%s" % (text(a0), text(a1))
        return None

    def pseudo_header(self, init):
        fs = {f["name"]: strip(f["e"]) for f in init["fields"]}
        base = init.get("base")
        if set(fs) == {"len"} and base is not None and text(base) == "record.hdr":
            l = fs["len"]
            if l["k"] == "cast" and strip(l["x"])["k"] == "mcall" and strip(l["x"])["name"] == "len" and is_self_field(strip(l["x"])["recv"], "record_defrag_buffer"):
                return "pseudo_header(len=buf.len,..record.hdr)"
        return "header(%s)" % text(init)

    def pmatch(self, p, oc, env):
        k = p["k"]
        if k == "wild":
            return True
        if k == "bind":
            env[p["id"]] = ("outcome", oc)
            return True
        if k == "por":
            for sp in p["pats"]:
                e2 = dict(env)
                if self.pmatch(sp, oc, e2):
                    env.update(e2)
                    return True
            return False
        if k == "ptuplestruct":
            path = p["res"]["path"]
            name = path.split("::")[-1]
            if path.startswith("core::result::Result::"):
                if name != oc[0]:
                    return False
                if name == "Ok":
                    if p["pats"]:
                        sp = p["pats"][0]
                        if sp["k"] == "bind":
                            env[sp["id"]] = ("okval",)
                            return True
                        return sp["k"] == "wild"
                    return True
                return self.pmatch(p["pats"][0], ("errinner", oc[1]), env) if p["pats"] else True
            if path.startswith("nom::internal::Err::") and oc[0] == "errinner":
                inner = oc[1]
                if name != inner[0]:
                    return False
                if p["pats"]:
                    sp = p["pats"][0]
                    if sp["k"] == "bind":
                        env[sp["id"]] = ("errval", inner[1] if len(inner) > 1 else None)
                    elif sp["k"] != "wild":
                        raise Unrec("error payload pattern")
                return True
        if k in ("pref", "pderef"):
            return self.pmatch(p["pat"], oc, env)
        raise Unrec("pattern " + k)

    def guard(self, g, env):
        g = strip(g)
        if g["k"] == "bin" and g["op"] == "==":
            a, b = strip(g["a"]), strip(g["b"])
            if a["k"] == "field" and a["name"] == "code" and strip(a["x"]).get("k") == "local":
                v = env.get(strip(a["x"])["id"])
                kp = path_of(b)
                if v and v[0] == "errval" and kp and kp.startswith("nom::error::ErrorKind::"):
                    want = kp.split("::")[-1]
                    return v[1] == want if want == "Complete" else (v[1] == "other" and False)
        raise Unrec("arm guard " + text(g))

    def cond(self, c, env):
        c = strip(c)
        neg = False
        while c["k"] == "un" and c["op"] == "!":
            neg = not neg
            c = strip(c["a"])
        pos_name = self.cond_class(c, env)
        if pos_name.startswith("!"):
            a, b = pos_name, pos_name[1:]
        else:
            a, b = pos_name, "!" + pos_name
        return (b, a) if neg else (a, b)

    def inline(self, e, env, depth=0):
        """replace locals bound by `let x = <pure expr>` with that expression (copy-on-write)"""
        if not isinstance(e, dict) or depth > 12:
            return e
        e2 = strip(e)
        if e2.get("k") == "local":
            v = env.get(e2["id"])
            if isinstance(v, tuple) and v and v[0] == "hir":
                return self.inline(v[1], env, depth + 1)
            return e
        out = dict(e)
        for key in ("f", "recv", "a", "b", "x", "c"):
            if isinstance(e.get(key), dict):
                out[key] = self.inline(e[key], env, depth + 1)
        if isinstance(e.get("args"), list):
            out["args"] = [self.inline(a, env, depth + 1) for a in e["args"]]
        return out

    def cond_class(self, c, env):
        c = strip(self.inline(c, env))
        return self.cond_class0(c, env)

    def cond_class0(self, c, env):
        if c["k"] == "mcall" and c.get("path") == "tls_records_parser::TlsRecordsParser::defrag_in_progress" and text(c["recv"]) == "self":
            return "in_progress"
        if c["k"] == "mcall" and c["name"] in ("is_some", "is_none") and is_self_field(c["recv"], "current_record_type") and (c.get("path") or "").startswith("core::option::Option"):
            return "in_progress" if c["name"] == "is_some" else "!in_progress"
        if c["k"] == "bin" and c["op"] == "||":
            parts = []
            def flat(x):
                x = strip(x)
                if x["k"] == "bin" and x["op"] == "||":
                    flat(x["a"]); flat(x["b"])
                else:
                    parts.append(x)
            flat(c)
            names = []
            for p in parts:
                if p["k"] == "bin" and p["op"] == "==" and is_record_type(p["a"], env) and (path_of(p["b"]) or "").startswith("tls_record::TlsRecordType::"):
                    names.append(path_of(p["b"]).split("::")[-1])
                else:
                    return "cond(%s)" % text(c)
            return "type in {%s}" % ",".join(sorted(names))
        if c["k"] == "bin" and c["op"] in ("!=", "=="):
            a, b = strip(c["a"]), strip(c["b"])
            def some_rt(x):
                return x["k"] == "call" and path_of(x["f"]) == "core::option::Option::Some" and is_record_type(x["args"][0], env)
            if (some_rt(a) and is_self_field(b, "current_record_type")) or (some_rt(b) and is_self_field(a, "current_record_type")):
                return "type_mismatch" if c["op"] == "!=" else "type_match"
        if c["k"] == "bin" and c["op"] in (">=", ">", "<", "<=", "=="):
            a, b = strip(c["a"]), strip(c["b"])
            if b["k"] == "path" and "val" in b and a["k"] == "mcall" and a["name"] in ("saturating_add", "wrapping_add", "checked_add"):
                ops = [strip(a["recv"]), strip(a["args"][0])]
                def is_len_of_buf(x):
                    return x["k"] == "mcall" and x["name"] == "len" and is_self_field(x["recv"], "record_defrag_buffer")
                def is_len_of_data(x):
                    return x["k"] == "mcall" and x["name"] == "len" and is_record_data(x["recv"], env)
                if (is_len_of_buf(ops[0]) and is_len_of_data(ops[1])) or (is_len_of_buf(ops[1]) and is_len_of_data(ops[0])):
                    return "too_large[%s,%d,%s]" % (c["op"], b["val"], a["name"])
        return "cond(%s)" % text(c)

    def action(self, e, env):
        e = strip(e)
        k = e["k"]
        if k == "assign":
            if is_self_field(e["a"], "current_record_type"):
                b = strip(e["b"])
                if b["k"] == "call" and path_of(b["f"]) == "core::option::Option::Some" and is_record_type(b["args"][0], env):
                    return "SetType(Some(record.type))"
                if path_of(b) == "core::option::Option::None":
                    return "SetType(None)"
                return "SetType(%s)" % text(b)
            a = strip(e["a"])
            if a["k"] == "un" and a["op"] == "*" and text(a["a"]) == "self":
                b = strip(e["b"])
                if b["k"] == "call" and (path_of(b["f"]) or "").endswith("Default::default") or (b["k"] == "call" and "default" in (path_of(b["f"]) or "")):
                    return "ResetDefault"
                return "AssignSelf(%s)" % text(b)
            return "Other(assign %s)" % text(e)
        if k == "mcall":
            if is_self_field(e["recv"], "record_defrag_buffer"):
                if e.get("path") == "alloc::vec::Vec::<T, A>::clear":
                    return "Clear"
                if e.get("path") == "alloc::vec::Vec::<T, A>::extend_from_slice" and is_record_data(e["args"][0], env):
                    return "Extend(record.data)"
                return "Buf.%s(%s)" % (e["name"], ",".join(text(a) for a in e["args"]))
        if k == "if" or k == "match":
            return "Other(nested %s)" % k
        # explicit panics (assert!/debug_assert!/unreachable!/panic!)
        for x in walk(e):
            cp = path_of(x["f"]) if x.get("k") == "call" else None
            if cp and cp.startswith("core::panicking::"):
                return "Panic(%s)" % cp.split("::")[-1]
        return "Other(%s)" % text(e)[:80]

    def exit(self, x, env, guards, actions):
        self.finish(guards, actions, self.exit_class(x, env))

    def exit_class(self, x, env):
        x = strip(x)
        if x is None:
            return "Value(())"
        if x["k"] == "local":
            v = env.get(x["id"])
            if v and v[0] == "outcome":
                return "Pass(result)"
            return "Value(%s)" % x["name"]
        if x["k"] == "call":
            fp = path_of(x["f"])
            if fp == "core::result::Result::Ok":
                a = strip(x["args"][0])
                if a["k"] == "local" and env.get(a["id"]) == ("okval",):
                    return "Ok(pass)"
                return "Ok(%s)" % text(a)
            if fp == "core::result::Result::Err":
                a = strip(x["args"][0])
                if a["k"] == "local":
                    v = env.get(a["id"])
                    if v and v[0] == "errinner" or (v and v[0] == "outcome"):
                        return "Pass(result)"
                    return "Err(%s)" % a["name"]
                if a["k"] == "call":
                    ep = path_of(a["f"]) or ""
                    if ep == "nom::internal::Err::Incomplete":
                        return "Incomplete"
                    if ep in ("nom::internal::Err::Error", "nom::internal::Err::Failure"):
                        inner = strip(a["args"][0])
                        if inner["k"] == "call" and len(inner["args"]) == 2:
                            kp = path_of(inner["args"][1]) or ""
                            if kp.startswith("nom::error::ErrorKind::"):
                                return "%s(%s)" % (ep.split("::")[-1], kp.split("::")[-1])
                return "Err(%s)" % text(a)
        if x["k"] == "mcall" and x.get("path") == "tls_records_parser::TlsRecordsParser::parse_record_nocopy" and text(x["recv"]) == "self" and text(x["args"][0]) == "record":
            return "Delegate(nocopy)"
        if x["k"] == "mcall" and x["name"] == "is_some" and is_self_field(x["recv"], "current_record_type"):
            return "Value(current_record_type.is_some())"
        return "Other(%s)" % text(x)[:100]
