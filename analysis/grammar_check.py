"""Compare the canonical wire grammar extracted from /repo with the reference grammars of spec/grammar.py."""
import hashlib, importlib.util, json, os
from .core import VERIF
from .pir import Ev, Builder, build, diff, find_opaque, seq_str, Opaque, walk_steps, canon


def load_spec():
    spec = importlib.util.spec_from_file_location("grammar", os.path.join(VERIF, "spec", "grammar.py"))
    m = importlib.util.module_from_spec(spec)
    spec.loader.exec_module(m)
    return m


# ---------------------------------------------------------------- single-variable predicate canonicalisation
def free_vars(s, acc):
    if isinstance(s, list):
        if len(s) == 2 and s[0] == "v" and isinstance(s[1], str):
            acc.add(s[1])
            return
        if s and s[0] in ("p", "remaining", "len", "cparam", "opaque", "call", "mcall", "lp", "tok", "tokbytes"):
            acc.add("?" + json.dumps(s))
            return
        for x in s[1:] if s and isinstance(s[0], str) else s:
            free_vars(x, acc)


def ev_sym(s, env):
    t = s[0]
    if t == "v":
        return env[s[1]]
    if t == "n":
        return s[1]
    if t == "bool":
        return s[1]
    if t == "not":
        return not ev_sym(s[1], env)
    if t == "cast":
        bits = {"u8": 8, "u16": 16, "u32": 32, "u64": 64, "usize": 64}[s[1]]
        return ev_sym(s[2], env) & ((1 << bits) - 1)
    if t == "op":
        a, b = ev_sym(s[2], env), ev_sym(s[3], env)
        o = s[1]
        if o == "&&":
            return bool(a) and bool(b)
        if o == "||":
            return bool(a) or bool(b)
        return {"<": lambda: a < b, "<=": lambda: a <= b, "==": lambda: a == b, "+": lambda: a + b, "-": lambda: a - b, "*": lambda: a * b,
                "&": lambda: a & b, "|": lambda: a | b, "^": lambda: a ^ b, "<<": lambda: a << b, ">>": lambda: a >> b,
                "%": lambda: a % b, "/": lambda: a // b}[o]()
    raise ValueError(t)


def truth_table_form(cond, widths):
    fv = set()
    free_vars(cond, fv)
    if len(fv) != 1:
        return cond
    v = next(iter(fv))
    if v.startswith("?") or widths.get(v, 99) > 16:
        return cond
    try:
        tt = bytes(1 if ev_sym(cond, {v: x}) else 0 for x in range(1 << widths[v]))
    except Exception:
        return cond
    return ["tt", v, widths[v], sum(tt), hashlib.sha1(tt).hexdigest()[:12]]


WIDTH_OF = {"u8": 8, "u16": 16, "u32": 32, "u64": 64, "usize": 64}


CONSUMING = ("u", "bytes", "tag", "opt", "complete", "many0", "many1", "all_consuming", "cut", "cond", "count", "alt", "param_parser", "opaque", "rewind")


def region_start_len(seq):
    """at the start of a region (before anything of it is consumed) what remains is the region's length: tests made
    there on `remaining` are rewritten to tests on len(region), so that a helper told the length by its caller and one
    that measures the slice it was handed compare equal"""
    def subst_rem(x, repl):
        if isinstance(x, list):
            if x == ["remaining"]:
                return repl
            return [subst_rem(y, repl) for y in x]
        return x

    def lead(sq, repl):
        """rewrite the leading, non-consuming part of sq (entered at the region start)"""
        for st in sq["steps"]:
            k = st[0]
            if k == "guard":
                st[1] = subst_rem(st[1], repl)
            elif k == "ite":
                st[2] = subst_rem(st[2], repl)
                lead(st[3], repl)
                lead(st[4], repl)
                break
            elif k == "switch":
                st[2] = subst_rem(st[2], repl)
                for _, a in st[3]:
                    lead(a, repl)
                lead(st[4], repl)
                break
            elif k == "cond":
                st[2] = subst_rem(st[2], repl)
                break
            elif k == "bytes":
                if not (st[2] == ["remaining"] and st[3] == "X"):   # (the canonical "all the rest" step stays)
                    st[2] = subst_rem(st[2], repl)
                break
            elif k == "count":
                st[2] = subst_rem(st[2], repl)
                break
            elif k in ("peek", "sub"):
                continue
            else:
                break

    seen = set()
    def visit(st, p):
        if st[0] == "sub" and id(st) not in seen:
            seen.add(id(st))
            lead(st[3], ["len", st[2]])
    walk_steps(seq, visit)
    return seq


def simplify_len(seq):
    """the length of a slice taken with count n is n (`data.len() as u16` after `take(len)` is `len` again), and a
    widening cast of a wire integer is that integer: rewrite both everywhere, so that a length passed on as
    `slice.len()` and one passed on as the decoded length field compare equal"""
    region_start_len(seq)
    counts, widths = {}, {}
    def note(st, p):
        if st[0] == "bytes" and st[2] != ["remaining"]:
            counts[st[1]] = st[2]
        elif st[0] == "u":
            widths[st[1]] = st[2]
    walk_steps(seq, note)

    def rw(x):
        if isinstance(x, dict):
            return {k: rw(v) for k, v in x.items()}
        if not isinstance(x, list):
            return x
        x = [rw(y) for y in x]
        if len(x) == 2 and x[0] == "len" and isinstance(x[1], list) and len(x[1]) == 2 and x[1][0] == "v" and x[1][1] in counts:
            return rw(counts[x[1][1]])
        if len(x) == 3 and x[0] == "cast" and isinstance(x[2], list) and len(x[2]) == 2 and x[2][0] == "v" and widths.get(x[2][1], 99) <= WIDTH_OF.get(x[1], 0):
            return x[2]
        if len(x) == 4 and x[0] == "op" and x[1] == ">>" and isinstance(x[2], list) and len(x[2]) == 4 and x[2][0] == "op" and x[2][1] == "<<" and x[2][3] == x[3] and x[3][0] == "n" \
                and isinstance(x[2][2], list) and x[2][2][0] == "v" and x[2][2][1] in widths and x[3][1] < widths[x[2][2][1]]:
            # (v << k) >> k on a w-bit wire integer keeps its low w - k bits
            return canon(["op", "&", x[2][2], ["n", (1 << (widths[x[2][2][1]] - x[3][1])) - 1]])
        if x and x[0] in ("op", "not", "fld", "cast") and isinstance(x[0], str):
            try:
                return canon(x)
            except Exception:
                return x
        return x
    if not counts and not widths:
        return seq
    new = rw(seq)
    seq["steps"], seq["ret"] = new["steps"], new["ret"]
    return seq


def semantic_conds(seq):
    """replace every condition over a single 8/16-bit wire integer by its truth table (count + hash):
    two syntactically different but equivalent predicates then compare equal."""
    simplify_len(seq)
    widths = {}
    walk_steps(seq, lambda st, p: widths.__setitem__(st[1], st[2]) if st[0] == "u" else None)

    def fix(st, p):
        if st[0] == "guard":
            st[1] = truth_table_form(st[1], widths)
        elif st[0] in ("ite", "cond"):
            st[2] = truth_table_form(st[2], widths)
    walk_steps(seq, fix)
    sort_guard_runs(seq)
    return seq


def sort_guard_runs(seq):
    """consecutive guards all reject with an error before anything further is consumed: their order is irrelevant
    (error kinds the properties do not name are not compared), so runs of guards are put in a canonical order"""
    def fix_steps(steps):
        i = 0
        while i < len(steps):
            if steps[i][0] == "guard":
                j = i
                while j < len(steps) and steps[j][0] == "guard":
                    j += 1
                run = sorted(steps[i:j], key=lambda g: json.dumps(g[1], sort_keys=True))
                # drop duplicates
                out = []
                for g in run:
                    if not out or out[-1][1] != g[1]:
                        out.append(g)
                steps[i:j] = out
                i += len(out)
            else:
                i += 1

    def rec(sq):
        fix_steps(sq["steps"])
        for st in sq["steps"]:
            for x in st:
                if isinstance(x, dict):
                    rec(x)
                elif isinstance(x, list):
                    for y in x:
                        if isinstance(y, dict):
                            rec(y)
                        elif isinstance(y, list) and len(y) == 2 and isinstance(y[1], dict):
                            rec(y[1])
    rec(seq)


# ---------------------------------------------------------------- comparison
def code_seq(F, path, gen=(), extra=None):
    ev = Ev(F)
    seq = ev.fn_seq(path, gen, extra)
    return semantic_conds(seq), ev


def spec_seq(fn):
    return semantic_conds(build(fn))


# ---------------------------------------------------------------- projections: compare only what a property is about
def _map_nested(st, fn):
    """apply fn to every nested seq of a step, returning a new step"""
    out = []
    for x in st:
        if isinstance(x, dict):
            out.append(fn(x))
        elif isinstance(x, list) and x and all(isinstance(y, dict) for y in x):
            out.append([fn(y) for y in x])
        elif isinstance(x, list) and x and all(isinstance(y, list) and len(y) == 2 and isinstance(y[1], dict) for y in x):
            out.append([[y[0], fn(y[1])] for y in x])
        else:
            out.append(x)
    return out


CUT = {"steps": [], "ret": ["ok", ["cut"]]}


def cut_regions(seq, depth):
    """replace the grammar inside length-delimited regions nested `depth` or deeper by a placeholder:
    the property that uses this projection is about the framing above that depth, not about what the regions contain"""
    def rec(sq, d):
        steps = []
        for st in sq["steps"]:
            if st[0] == "sub":
                inner = CUT if d + 1 > depth else rec(st[3], d + 1)
                steps.append([st[0], st[1], st[2], inner])
            else:
                steps.append(_map_nested(st, lambda s: rec(s, d)))
        return {"steps": steps, "ret": sq["ret"]}
    from .pir import renumber
    return renumber(rec(seq, 0))


def skeleton(seq):
    """consumption skeleton: which wire elements are read with which widths/modes, which integer delimits which bytes,
    which region confines which nested grammar, under which wrappers - without guards, values, dispatch constants.
    This is what locality (C06) depends on."""
    def val(r):
        return ["ok", ["value"]] if r and r[0] in ("ok", "okwhole") else (["err", None] if r else None)

    def rec(sq):
        steps = []
        for st in sq["steps"]:
            k = st[0]
            if k == "guard":
                continue
            if k == "sub":
                # a nested grammar applied to an already cut region consumes nothing of the enclosing input
                # (REGION-USE checks that it really runs on the region): not part of the consumption skeleton
                continue
            if k == "switch":
                arms = sorted(set(json.dumps(rec(s), sort_keys=True) for _, s in st[3]))
                # arms with identical consumption are merged: which constant selects which arm is not a locality matter
                steps.append(["switch", st[1], ["scrutinee"], [[i, json.loads(a)] for i, a in enumerate(arms)], rec(st[4])])
            elif k == "ite":
                two = sorted([json.dumps(rec(st[3]), sort_keys=True), json.dumps(rec(st[4]), sort_keys=True)])
                steps.append(["ite", st[1], ["condition"], json.loads(two[0]), json.loads(two[1])])
            elif k == "cond":
                steps.append(["cond", st[1], ["condition"], rec(st[3])])
            else:
                steps.append(_map_nested(st, rec))
        return {"steps": steps, "ret": val(sq["ret"])}
    from .pir import renumber
    return renumber(rec(seq))


def keep_arms(seq, levels):
    """keep, in the dispatch at nesting level k, only the arms whose constant is in levels[k] (None = keep all):
    the property that uses this projection is about some variants only"""
    def rec(sq, lvl):
        steps = []
        for st in sq["steps"]:
            if st[0] == "switch":
                keep = levels[lvl] if lvl < len(levels) else None
                arms = [[c, rec(s, lvl + 1)] for c, s in st[3] if keep is None or c in keep]
                steps.append([st[0], st[1], st[2], arms, rec(st[4], lvl + 1) if keep is None else CUT])
            else:
                steps.append(_map_nested(st, lambda s: rec(s, lvl)))
        return {"steps": steps, "ret": sq["ret"]}
    from .pir import renumber
    return renumber(rec(seq, 0))


def compare(F, path, specfn, gen=(), extra=None, project=None):
    """-> dict(ok, diff, anomalies, opaque, code, spec).  project: None | ("cut", depth) | ("skeleton",)"""
    try:
        cs, ev = code_seq(F, path, gen, extra)
    except KeyError:
        return {"ok": False, "diff": "function %s not found in the crate" % path, "missing": True}
    except Opaque as o:
        return {"ok": False, "diff": "unrecognised construct in %s: %s" % (path, o), "unrecognised": True}
    ss = spec_seq(specfn)
    full_cs = cs
    if project:
        if project[0] == "cut":
            cs, ss = cut_regions(cs, project[1]), cut_regions(ss, project[1])
        elif project[0] == "skeleton":
            d = project[1] if len(project) > 1 else None
            if d is not None:
                cs, ss = cut_regions(cs, d), cut_regions(ss, d)
            cs, ss = skeleton(cs), skeleton(ss)
        elif project[0] == "arms":
            cs, ss = keep_arms(cs, project[1]), keep_arms(ss, project[1])
    d = diff(ss, cs)
    opq = find_opaque(cs)
    anomalies = ev.anomalies if not project or project[0] not in ("cut", "arms") else []
    return {"ok": d is None and not opq and not anomalies, "diff": d, "anomalies": anomalies, "opaque": opq[:3], "code": cs, "full_code": full_cs, "spec": ss, "called": sorted(ev.called)}
