"""Shared infrastructure: fact loading/indexing, HIR helpers, rule-instance report, evidence writer."""
import hashlib, json, os, re, sys, time

VERIF = os.path.dirname(os.path.dirname(os.path.abspath(__file__)))
EVID = os.environ.get("TLSVERIF_EVID") or os.path.join(VERIF, "evidence")
KNOWN = os.environ.get("TLSVERIF_KNOWN") or os.path.join(VERIF, "known_findings.json")  # override only for testing the mechanism


# --------------------------------------------------------------------------- facts
class Facts:
    def __init__(self, facts, info=None):
        self.raw = facts
        self.info = info or {}
        self.meta = facts["meta"]
        self.fns = {}
        self.closures = {}
        for f in facts["fns"]:
            self.fns.setdefault(f["path"], f)
        self.adts = {a["path"]: a for a in facts["adts"]}
        self.consts = {c["path"]: c for c in facts["consts"]}
        self.impls = facts["impls"]
        self.unsafe = facts["unsafe"]
        self.features = sorted(c.split("=", 1)[1] for c in self.meta["cfg"] if c.startswith("feature="))

    def fn(self, path):
        return self.fns.get(path)

    def find_fns(self, suffix):
        return [f for p, f in self.fns.items() if p == suffix or p.endswith("::" + suffix)]

    def one_fn(self, suffix):
        m = self.find_fns(suffix)
        return m[0] if len(m) == 1 else None

    def hir_fns(self):
        return [f for f in self.raw["fns"] if "hir" in f]

    def const_val(self, path):
        c = self.consts.get(path)
        return None if c is None else c.get("val")


# --------------------------------------------------------------------------- HIR helpers
def strip(e):
    """Remove wrappers that do not change the value: DropTemps, Use, type ascription,
    blocks consisting of a single tail expression, `&`/`&mut` are NOT removed."""
    while e is not None:
        k = e.get("k")
        if k in ("droptemps", "use", "ascribe"):
            e = e["x"]
        elif k == "block" and not e["stmts"] and e["expr"] is not None and "unsafe" not in e:
            e = e["expr"]
        else:
            break
    return e


def strip_ref(e):
    e = strip(e)
    while e is not None and e.get("k") == "addrof":
        e = strip(e["x"])
    return e


def is_try(e):
    """`x?` desugars to match Try::branch(x) { Break(r) => return from_residual(r), Continue(v) => v }.
    Returns x or None."""
    e = strip(e)
    if e and e.get("k") == "match" and e.get("src", "").startswith("TryDesugar"):
        sc = strip(e["scrut"])
        if sc.get("k") == "call" and strip(sc["f"]).get("path") == "core::ops::try_trait::Try::branch":
            return sc["args"][0]
    return None


def path_of(e):
    e = strip(e)
    if e and e.get("k") == "path":
        return e.get("resolved") or e["path"]
    return None


def callee_of(e):
    """For a call/mcall expression return the (resolved) callee path, else None."""
    e = strip(e)
    if not e:
        return None
    if e.get("k") == "call":
        return path_of(e["f"])
    if e.get("k") == "mcall":
        return e.get("resolved") or e.get("path")
    return None


CHILD_KEYS = ("f", "recv", "a", "b", "x", "c", "t", "scrut", "body", "init", "i", "e", "expr", "base", "guard", "els")
LIST_KEYS = ("args", "xs", "stmts")


def walk(e):
    """Pre-order generator over every expression node (including closure bodies, statements'
    initialisers, match arm guards/bodies, struct field values)."""
    if e is None or not isinstance(e, dict):
        return
    yield e
    for k in CHILD_KEYS:
        v = e.get(k)
        if isinstance(v, dict):
            yield from walk(v)
    for k in LIST_KEYS:
        v = e.get(k)
        if isinstance(v, list):
            for x in v:
                yield from walk(x)
    if e.get("k") == "match":
        for a in e["arms"]:
            yield from walk(a.get("guard"))
            yield from walk(a["body"])
            yield from walk_pat_exprs(a["pat"])
    if e.get("k") in ("struct",):
        for f in e["fields"]:
            yield from walk(f["e"])
    if e.get("k") == "pguard":
        yield from walk(e.get("guard"))


def walk_pat_exprs(p):
    if not isinstance(p, dict):
        return
    if p.get("k") == "pguard":
        yield from walk(p["guard"])
    for k in ("pat", "sub", "mid"):
        if isinstance(p.get(k), dict):
            yield from walk_pat_exprs(p[k])
    for k in ("pats", "before", "after"):
        for x in p.get(k) or []:
            yield from walk_pat_exprs(x)
    for f in p.get("fields") or []:
        yield from walk_pat_exprs(f["pat"])


def short_loc(loc):
    """'src/x.rs:10:5-12:7' -> 'src/x.rs:10'"""
    if not loc:
        return "?"
    m = re.match(r"(.*?):(\d+):\d+-", loc)
    return "%s:%s" % (m.group(1), m.group(2)) if m else loc


def site(fn_or_expr, name=None):
    loc = short_loc(fn_or_expr.get("loc"))
    nm = name or fn_or_expr.get("path") or ""
    return ("%s %s" % (loc, nm)).strip()


# --------------------------------------------------------------------------- report
class Report:
    def __init__(self, prop, tier):
        self.prop = prop
        self.tier = tier
        self.t0 = time.time()
        self.instances = []  # every rule instance evaluated
        self.violations = []  # dicts with key
        self.sites = set()
        self.notes = []
        self.assumptions = []
        self.floors = {}
        self.functions = set()
        self.configs = []
        self.extra = {}
        self.rules = {}

    def rule(self, name, text):
        self.rules[name] = text

    def ok(self, rule, site_, instance, why=""):
        self.instances.append({"rule": rule, "site": site_, "instance": instance, "verdict": "ok", "why": why})
        self.sites.add((rule, site_, str(instance)))

    def fail(self, rule, key, site_, msg, expected=None, found=None):
        """key: stable identifier without line numbers."""
        full = "%s/%s/%s" % (self.prop, rule, key)
        self.instances.append({"rule": rule, "site": site_, "instance": key, "verdict": "VIOLATION", "why": msg})
        self.sites.add((rule, site_, str(key)))
        self.violations.append({"key": full, "rule": rule, "site": site_, "message": msg, "expected": expected, "found": found})

    def check(self, cond, rule, key, site_, msg_fail, why_ok="", expected=None, found=None):
        if cond:
            self.ok(rule, site_, key, why_ok)
        else:
            self.fail(rule, key, site_, msg_fail, expected, found)
        return cond

    def floor(self, name, measured, minimum):
        self.floors[name] = {"measured": measured, "min": minimum}
        if measured < minimum:
            self.fail("FLOOR", name, "-", "sanity floor not met: %s = %d < %d (anchor missing or analysis went vacuous)" % (name, measured, minimum),
                      expected=">=%d" % minimum, found=measured)
        else:
            self.ok("FLOOR", "-", name, "%d >= %d" % (measured, minimum))

    def note(self, s):
        self.notes.append(s)

    def assume(self, s):
        if s not in self.assumptions:
            self.assumptions.append(s)

    # ---- finish
    def finish(self, level="other", explanation="", rule_text="", exhaustive=None, extra_cov=None, proof=None):
        known = load_known()
        os.makedirs(os.path.join(EVID, "violations"), exist_ok=True)
        unlisted = []
        printed = []
        for v in self.violations:
            kf = known.get(v["key"])
            if kf and kf.get("status") == "open":
                printed.append("KNOWN-FINDING: property=%s %s [%s]" % (self.prop, kf.get("what", v["message"]), v["key"]))
                v["known_finding"] = True
            else:
                unlisted.append(v)
        for line in printed:
            print(line)
        for v in unlisted:
            h = hashlib.sha1(v["key"].encode()).hexdigest()[:12]
            path = os.path.join(EVID, "violations", "%s-%s.json" % (self.prop, h))
            with open(path, "w") as fh:
                json.dump({"property": self.prop, **v}, fh, indent=1)
            v["replay"] = path
        nontrivial = len(self.sites)
        samples = []
        seen_rules = set()
        for inst in self.instances:
            if inst["rule"] not in seen_rules and inst["rule"] != "FLOOR":
                seen_rules.add(inst["rule"])
                samples.append(inst)
        for inst in self.instances:
            if inst["verdict"] != "ok" and inst not in samples:
                samples.append(inst)
        samples = samples[:40]
        if not samples:
            samples = [{"rule": "none", "note": "no rule instance was evaluated"}]
        cov = {
            "explanation": explanation,
            "evaluations": len(self.instances),
            "distinct_nontrivial": nontrivial,
            "rule": rule_text or ("rule instances are enumerated from the extracted facts of the current /repo tree; an instance is "
                                  "distinct by (rule, site, instance key) and non-trivial when the rule had an obligation to decide at that site"),
            "samples": samples,
            "obligations": len(self.instances),
            "discharged": len([i for i in self.instances if i["verdict"] == "ok"]),
            "rules": self.rules,
            "functions_analysed": len(self.functions),
            "configs": self.configs,
            "floors": self.floors,
            "notes": self.notes[:60],
            "known_findings_matched": len(printed),
        }
        if exhaustive is not None:
            cov["exhaustive"] = exhaustive
        if proof:
            cov.update(proof)
        if extra_cov:
            cov.update(extra_cov)
        ev = {
            "property_id": self.prop,
            "tier": self.tier,
            "seed": int(os.environ.get("VERIF_SEED", "0") or 0),
            "level": level,
            "coverage": cov,
            "assumptions": self.assumptions,
            "wall_s": round(time.time() - self.t0, 2),
            "violations": len(unlisted),
        }
        os.makedirs(EVID, exist_ok=True)
        tmp = os.path.join(EVID, ".%s.json.tmp%d" % (self.prop, os.getpid()))
        with open(tmp, "w") as fh:
            json.dump(ev, fh, indent=1, default=str)
        os.replace(tmp, os.path.join(EVID, "%s.json" % self.prop))
        for v in unlisted:
            print("  %s: %s\n    site: %s\n    expected: %s\n    found: %s" % (v["key"], v["message"], v["site"], v.get("expected"), v.get("found")))
            print("VIOLATION property=%s replay=%s" % (self.prop, v["replay"]))
        print("%s %s: %d rule instances, %d distinct sites, %d violations, %d known findings, %.1fs" % (
            self.prop, self.tier, len(self.instances), nontrivial, len(unlisted), len(printed), time.time() - self.t0))
        return 1 if unlisted else 0


def load_known():
    try:
        with open(KNOWN) as fh:
            d = json.load(fh)
    except FileNotFoundError:
        return {}
    return {e["key"]: e for e in d.get("findings", []) if "key" in e}
